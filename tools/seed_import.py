#!/usr/bin/env python3
"""usage: tools/seed_import.py <seedout dir> <id>  -- keeps a confirmed seeded change under /verif/seeded/<id>/"""
import glob, json, os, shutil, sys
src, sid = sys.argv[1], sys.argv[2]
dst = os.path.join('/verif/seeded', sid)
os.makedirs(dst, exist_ok=True)
shutil.copy(os.path.join(src, 'patch.diff'), dst)
for f in glob.glob(os.path.join(src, '*_test.go')) + glob.glob(os.path.join(src, '*.go')):
    # keep demos from being compiled by "go vet ./..." in /verif: store with a .txt suffix
    shutil.copy(f, os.path.join(dst, os.path.basename(f) + '.txt'))
meta = json.load(open(os.path.join(src, 'meta.json')))
conf = json.load(open(os.path.join(src, 'confirm.json'))) if os.path.exists(os.path.join(src, 'confirm.json')) else {}
out = {
    "property": meta.get("property"),
    "summary": meta.get("summary"),
    "needs": meta.get("needs"),
    "files_changed": meta.get("files_changed"),
    "demo": {"pkg_dir": meta.get("demo_pkg_dir"), "run": meta.get("demo_run"), "note": "demo files are stored with a .txt suffix; copy into pkg_dir without it"},
    "author": "independent sub-agent given only the property text and a scratch worktree",
    "confirmed_in_scratch_worktree": conf,
    "what_i_ran": "tools/seed_confirm.sh (demo passes without / fails with the change, go build, full suite vs BASELINE stable_pass) and tools/seed_check.sh (apply to /repo, ./check, undo)",
    "detection": {},
}
for log in sorted(glob.glob(os.path.join(src, 'check_*.log'))):
    txt = open(log).read()
    name = os.path.basename(log)[6:-4]
    vio = [l for l in txt.splitlines() if l.startswith('VIOLATION')]
    msg = [l.strip() for l in txt.splitlines() if l.startswith('   ')][:1]
    out["detection"][name] = {"detected": bool(vio), "message": msg[0][:300] if msg else ""}
json.dump(out, open(os.path.join(dst, 'meta.json'), 'w'), indent=1)
print(dst, out["detection"])
