#!/bin/bash
# usage: tools/seed_confirm.sh <seed dir with patch.diff, meta.json, demo> <scratch worktree of /repo>
# Confirms independently: demo passes without the change, fails with it; the change builds; the existing suite still passes
# (only tests outside BASELINE stable_pass may fail). Leaves the worktree clean. Prints a JSON verdict.
set -u
D=$1; WT=$2
export GOFLAGS=-mod=mod GOPROXY=off
cd $WT || exit 2
git checkout -q -- . ; git clean -fdq
PKG=$(python3 -c "import json;print(json.load(open('$D/meta.json'))['demo_pkg_dir'])")
RUN=$(python3 -c "
import json,re
r=json.load(open('$D/meta.json'))['demo_run']
m=re.search(r'go test.*', r)
print(m.group(0).split('&&')[0].strip() if m else r)")
DEMOS=$(ls $D/*_test.go 2>/dev/null)
cp $DEMOS $WT/$PKG/ || exit 2
( cd $WT; eval "$RUN" ) > $D/confirm_without.log 2>&1; WITHOUT=$?
git apply $D/patch.diff || { echo "patch does not apply"; exit 2; }
go build ./... > $D/confirm_build.log 2>&1; BUILD=$?
( cd $WT; eval "$RUN" ) > $D/confirm_with.log 2>&1; WITH=$?
for f in $DEMOS; do rm -f $WT/$PKG/$(basename $f); done
go test -json -vet=off -count=1 -timeout 25m ./... > $D/confirm_suite.json 2>/dev/null
python3 - $D $WITHOUT $BUILD $WITH <<'P'
import json,sys
d,without,build,withc=sys.argv[1],int(sys.argv[2]),int(sys.argv[3]),int(sys.argv[4])
stable=set(json.load(open('/root/.vp/BASELINE.json'))['stable_pass'])
res={}
for l in open(d+'/confirm_suite.json'):
    try: e=json.loads(l)
    except ValueError: continue
    if e.get('Test') and e.get('Action') in('pass','fail'):
        res[e['Package']+'::'+e['Test']]=e['Action']
b=json.load(open('/root/.vp/BASELINE.json'))
unstable={t.split('/')[0] if '::' not in t.split('/')[0] else t for t in []}
unstable_top=set(x.split('::')[0]+'::'+x.split('::')[1].split('/')[0] for x in b.get('flaky',[])+b.get('always_fail',[]))
bad=[t for t in stable if res.get(t)!='pass' and (t.split('::')[0]+'::'+t.split('::')[1].split('/')[0]) not in unstable_top]
v={"demo_passes_without_change":without==0,"builds":build==0,"demo_fails_with_change":withc!=0,"suite_stable_tests_not_passing":bad[:20],"suite_ok":len(bad)==0,"tests_seen":len(res)}
v["confirmed"]=v["demo_passes_without_change"] and v["builds"] and v["demo_fails_with_change"] and v["suite_ok"]
json.dump(v,open(d+'/confirm.json','w'),indent=1); print(json.dumps(v))
P
git checkout -q -- . ; git clean -fdq
