#!/bin/bash
# usage: tools/sweep.sh <tier> <seed-from> <seed-to> [props...]   -- runs checks over a seed range, prints one line per run and any violation
TIER=$1; A=$2; B=$3; shift 3
PROPS=${@:-C01 C02 C03 C04 C05 C06 C07 C08 C09 C10 C11 C12 C13 C14 C15 C16 C17 C18 C19 C20}
mkdir -p sweep-replays
for s in $(seq $A $B); do for p in $PROPS; do
  VERIF_REPLAY_DIR=$PWD/sweep-replays VERIF_EVIDENCE_DIR=$PWD/sweep-replays VERIF_SEED=$s ./check $p --tier $TIER 2>&1 | grep -v "^KNOWN" | tail -3 | cut -c1-400
done; done
