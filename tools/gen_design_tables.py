#!/usr/bin/env python3
"""Regenerates the generated tables of DESIGN.md (between <!-- BEGIN:x --> / <!-- END:x --> markers):
   fixed    - repaired defects, from KNOWN_FINDINGS.txt 'fixed:' lines
   findings - listed findings, from KNOWN_FINDINGS.txt 'finding:' lines
   seeds    - seeded breaking changes and the checks that catch them, from seeded/*/meta.json and seeded/RESULTS.json
"""
import json, os, re, subprocess, sys

ROOT = os.path.dirname(os.path.dirname(os.path.abspath(__file__)))


def esc(s):
    return s.replace("|", "\\|").replace("\n", " ")


def fixed_table():
    rows = []
    for line in open(os.path.join(ROOT, "KNOWN_FINDINGS.txt")):
        m = re.match(r"fixed: property=(\S+) (\S+) (.*)", line.strip())
        if m:
            rows.append((m.group(1), m.group(2), m.group(3)))
    rows.sort(key=lambda r: r[0])
    out = ["| property | commit(s) in /repo | what failed (minimal trigger) |", "|---|---|---|"]
    for p, c, t in rows:
        out.append("| %s | %s | %s |" % (p, c, esc(t)))
    out.append("")
    out.append("%d repaired defects." % len(rows))
    return "\n".join(out)


def findings_table():
    out = ["| property (also) | id | replay | what fails |", "|---|---|---|---|"]
    n = 0
    for line in open(os.path.join(ROOT, "KNOWN_FINDINGS.txt")):
        line = line.strip()
        if not line.startswith("finding:"):
            continue
        head, _, text = line[len("finding:"):].partition("::")
        kv = dict(x.split("=", 1) for x in head.split() if "=" in x)
        prop = kv.get("property", "")
        if kv.get("also"):
            prop += " (" + kv["also"] + ")"
        out.append("| %s | %s | %s | %s |" % (prop, kv.get("id", ""), kv.get("replay", ""), esc(text.strip())))
        n += 1
    out.append("")
    out.append("%d listed findings." % n)
    return "\n".join(out)


def seeds_table():
    out = ["| seed | change (summary) | needs | caught by (tier) | note |", "|---|---|---|---|---|"]
    base = os.path.join(ROOT, "seeded")
    n = caught = 0
    for d in sorted(os.listdir(base)):
        meta_p = os.path.join(base, d, "meta.json")
        if not os.path.exists(meta_p):
            continue
        meta = json.load(open(meta_p))
        det = meta.get("detection_final") or {}
        hits = ["%s (%s)" % (k.split("_")[0], k.split("_")[1]) for k, v in sorted(det.items()) if v.get("detected")]
        n += 1
        if hits:
            caught += 1
        note = meta.get("detection_note", "")
        if not hits and not note:
            note = "missed"
        out.append("| %s | %s | %s | %s | %s |" % (d, esc(meta.get("summary") or "")[:300], esc(meta.get("needs") or "")[:220], ", ".join(hits) or "—", esc(note)))
    out.append("")
    out.append("%d seeded changes, %d caught by at least one registered check." % (n, caught))
    return "\n".join(out)


def main():
    path = os.path.join(ROOT, "DESIGN.md")
    s = open(path).read()
    for name, fn in (("fixed", fixed_table), ("findings", findings_table), ("seeds", seeds_table)):
        b, e = "<!-- BEGIN:%s -->" % name, "<!-- END:%s -->" % name
        if b in s and e in s:
            s = s[:s.index(b) + len(b)] + "\n" + fn() + "\n" + s[s.index(e):]
    open(path, "w").write(s)


if __name__ == "__main__":
    main()
