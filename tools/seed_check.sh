#!/bin/bash
# usage: tools/seed_check.sh <seed dir> <property> [tier] [seed]   -- applies the change to /repo, runs the check, undoes it
D=$1; P=$2; TIER=${3:-quick}; SEED=${4:-1}
cd /repo || exit 2
[ -z "$(git status --porcelain)" ] || { echo "/repo not clean"; exit 2; }
git apply $D/patch.diff || { echo "patch does not apply"; exit 2; }
mkdir -p /tmp/seedreplays
( cd /verif; VERIF_REPLAY_DIR=/tmp/seedreplays VERIF_EVIDENCE_DIR=/tmp/seedreplays VERIF_SEED=$SEED ./check $P --tier $TIER ) > $D/check_${P}_${TIER}.log 2>&1; RC=$?
git -C /repo checkout -q -- .
echo "$D $P $TIER seed=$SEED exit=$RC $(grep -c '^VIOLATION' $D/check_${P}_${TIER}.log) violation line(s)"; grep -B1 '^VIOLATION' $D/check_${P}_${TIER}.log | head -4 | cut -c1-300
