#!/usr/bin/env python3
"""Regenerates /verif/MANIFEST.json from checks_table.py (one source of truth for what is claimed)."""
import json
import os
import subprocess
import sys

ROOT = os.path.dirname(os.path.dirname(os.path.abspath(__file__)))
sys.path.insert(0, ROOT)
from checks_table import CHECKS, META, NOT_APPLICABLE  # noqa: E402

props = [json.loads(l)["id"] for l in open(os.path.join(ROOT, "properties.jsonl"))]

hook_commits = subprocess.run(["git", "-C", "/repo", "log", "--format=%h", "--", "pkg/scheduler/verif_hooks.go", "pkg/scheduler/objects/verif_hooks.go",
                               "pkg/events/verif_hooks.go", "pkg/locking/verif_hooks.go", "pkg/webservice/verif_hooks.go", "pkg/scheduler/verif_midcycle_off.go", "pkg/scheduler/ugm/verif_hooks.go", "pkg/scheduler/placement/verif_hooks.go"],
                              stdout=subprocess.PIPE, text=True).stdout.split()

m = {
    "version": 1,
    "setup_cmd": "cd /verif && cp -n /repo/go.sum go.sum; GOFLAGS=-mod=mod GOPROXY=off go test -c -tags verif -o .bin/props.test ./props",
    "hooks": {
        "guard": "verif (Go build tag)",
        "enable": "go test -tags verif (hook files are //go:build verif, add-only new files named verif_hooks.go; one interleaving point: two added call lines in pkg/scheduler/partition.go to a function that is empty in verif_midcycle_off.go (//go:build !verif))",
        "baseline_off_cmd": "cd /repo && go build ./... && go test -vet=off -count=1 -timeout 25m ./...",
        "source_commits": sorted(set(hook_commits)),
        "add_only": True,
    },
    "engines": [{
        "name": "props",
        "path": "/verif/props",
        "serves_properties": [p for p in props if p in CHECKS],
        "kind_free_text": "rapid (pgregory.net/rapid v1.3.0) property tests and state-machine tests over a synchronous driver of the real core, "
                          "native go fuzz targets in the thorough tier; one test binary built from /repo's working tree with -tags verif, sharded by ./check",
    }],
    "checks": [],
    "not_applicable": [],
    "notes": "All checks: ./check <ID> [--tier quick|thorough]; VERIF_SEED and VERIF_TIER are honoured; exit 2 + INCONCLUSIVE for infrastructure problems. "
             "Known findings and repaired defects: KNOWN_FINDINGS.txt. Seeded changes used to test sensitivity: seeded/. See DESIGN.md.",
}
for p in props:
    if p in CHECKS:
        meta = META[p]
        m["checks"].append({
            "property_id": p,
            "quick_cmd": "./check %s --tier quick" % p,
            "thorough_cmd": "./check %s --tier thorough" % p,
            "evidence_file": "/verif/evidence/%s.json" % p,
            "replay_cmd_template": "./check %s --replay {path}" % p,
            "engine": "props",
            "level_claimed": {
                "category": "exploration",
                "text": meta["level_text"],
                "design_ref": "DESIGN.md §3 " + p,
            },
            "level_note": meta["level_note"],
            "technique": meta["technique"],
        })
    else:
        m["not_applicable"].append({"property_id": p, "reason": NOT_APPLICABLE.get(p, "check not built yet (designed in DESIGN.md §3); not claimed")})
with open(os.path.join(ROOT, "MANIFEST.json"), "w") as fh:
    json.dump(m, fh, indent=1)
print("claimed:", [c["property_id"] for c in m["checks"]])
print("not applicable:", [c["property_id"] for c in m["not_applicable"]])
