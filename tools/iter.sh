#!/bin/bash
# usage: tools/iter.sh <TestName> [checks] [seed]  -- developer loop: run one test, print the minimised failure
cd /verif; export GOFLAGS=-mod=mod GOPROXY=off
D=$(mktemp -d /tmp/iter.XXXX)
VERIF_FAIL_OUT=$D/fail.jsonl VERIF_STATS_OUT=$D/stats.jsonl VERIF_EXCLUDE="$EXCL" go test -tags verif ./props/ -run "^$1\$" -rapid.checks=${2:-300} -rapid.seed=${3:-1} -rapid.shrinktime=${SHRINK:-5s} -rapid.nofailfile -timeout 600s > $D/out.txt 2>&1
tail -2 $D/out.txt
python3 - $D <<'P'
import json,os,sys
d=sys.argv[1]
if os.path.exists(d+'/fail.jsonl'):
  for l in open(d+'/fail.jsonl'):
    f=json.loads(l); print(f['message']); print("\n".join(f.get('trace',[])))
    json.dump(f,open('/tmp/last_fail.json','w'),indent=1)
if os.path.exists(d+'/stats.jsonl'):
  for l in open(d+'/stats.jsonl'):
    s=json.loads(l); print('evals',s['evaluations'],'nontrivial',len(s['fingerprints']),'steps',s['steps'],'decisions',s['decisions_checked']); print(json.dumps(s['labels'],sort_keys=True))
P
rm -rf $D
