#!/bin/bash
# usage: tools/seed_matrix.sh [tier] [ids...]  -- for every kept seeded change: apply to /repo, run the check of its property
# (plus the extra properties named in meta.json "also_check"), undo, record the outcome in meta.json "detection_final".
TIER=${1:-quick}; shift
cd /verif
IDS="$@"; [ -z "$IDS" ] && IDS=$(ls seeded | grep -- '-m')
for id in $IDS; do
  D=/verif/seeded/$id
  [ -f $D/patch.diff ] || continue
  PROP=${id%%-*}
  cd /repo; [ -z "$(git status --porcelain)" ] || { echo "/repo not clean"; exit 2; }
  if git apply --check $D/patch.diff 2>/dev/null; then
    git apply $D/patch.diff
  elif git apply --check -C1 $D/patch.diff 2>/dev/null; then
    git apply -C1 $D/patch.diff
  else
    echo "$id: patch does not apply to the current tree"
    python3 - $D <<'P'
import json,sys
p=sys.argv[1]+'/meta.json'; m=json.load(open(p)); m['detection_note']='patch no longer applies to the repaired tree (the changed lines were rewritten by a fix)'; json.dump(m,open(p,'w'),indent=1)
P
    continue
  fi
  ALSO=$(python3 -c "import json;print(' '.join(json.load(open('$D/meta.json')).get('also_check',[])))")
  for P in $PROP $ALSO; do
    mkdir -p /tmp/seedreplays
    ( cd /verif; VERIF_REPLAY_DIR=/tmp/seedreplays VERIF_EVIDENCE_DIR=/tmp/seedreplays VERIF_SEED=1 ./check $P --tier $TIER ) > /tmp/seedreplays/$id.$P.$TIER.log 2>&1; RC=$?
    python3 - $D $P $TIER $RC /tmp/seedreplays/$id.$P.$TIER.log <<'P'
import json,sys
d,prop,tier,rc,log=sys.argv[1:6]
txt=open(log).read()
vio=[l for l in txt.splitlines() if l.startswith('VIOLATION')]
msg=[l.strip() for l in txt.splitlines() if l.startswith('   ')][:1]
p=d+'/meta.json'; m=json.load(open(p))
m.setdefault('detection_final',{})[prop+'_'+tier]={'detected':bool(vio),'exit':int(rc),'message':(msg[0][:300] if msg else '')}
json.dump(m,open(p,'w'),indent=1)
print(d.split('/')[-1],prop,tier,'exit',rc,'DETECTED' if vio else 'missed',(msg[0][:140] if msg else ''))
P
  done
  git -C /repo checkout -q -- .
done
rm -rf /tmp/seedreplays
