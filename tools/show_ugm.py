#!/usr/bin/env python3
import json,sys,yaml
f=json.load(open(sys.argv[1] if len(sys.argv)>1 else '/tmp/last_fail.json'))
print(f['message'])
def walk(q,prefix,out):
    p=(prefix+'.'+q['name']) if prefix else q['name']
    for l in q.get('limits',[]) or []:
        who=','.join(['u:'+u for u in l.get('users',[]) or []]+['g:'+g for g in l.get('groups',[]) or []])
        out.append(f"   {p}: {who} res={l.get('maxresources')} apps={l.get('maxapplications',0)}")
    for c in q.get('queues',[]) or []: walk(c,p,out)
for i,op in enumerate(f['case']['ops']):
    if op['kind']=='config':
        c=yaml.safe_load(op['conf']); out=[]
        walk(c['partitions'][0]['queues'][0],'',out)
        print(i,'CONFIG'); print('\n'.join(out))
    else: print(i,{k:v for k,v in op.items()})
