"""Per-property run configuration for ./check. One entry per claimed property."""

COMMON_ASSUMPTIONS = [
    "exploration only: no counterexample in the generated cases, absence is not established",
    "single partition 'default'; gRPC transport, metrics, web UI and LDAP/OS user resolution are outside every generator",
    "verif build-tag hooks in /repo (add-only) expose a synchronous dispatcher and read accessors",
]

CHECKS = {
    "C18": {
        "replay_test": "TestC18Replay",
        "runs": [
            {"test": "TestC18Arithmetic", "shards_quick": 4, "checks_quick": 40000, "shards_thorough": 16, "checks_thorough": 400000},
            {"test": "TestC18Quantity", "shards_quick": 2, "checks_quick": 40000, "shards_thorough": 8, "checks_thorough": 400000},
        ],
        "rule": "generated (a,b,c resource vectors over 4 type names incl. nil/empty, int and float ratios) and quantity strings; "
                "non-trivial = an operand holds an extreme value (|v| > MaxInt64/2) or the operands' key sets overlap only partially; "
                "quantity strings: documented grammar with value beyond 2^52 or out of int64 range; distinct = hash of the generated inputs",
        "assumptions": COMMON_ASSUMPTIONS + ["float ratio results compared with the exact product within 2^-50 relative + 1 (two float64 roundings)",
                                             "NaN ratios excluded; *OnlyExisting comparisons asserted only where both operands are non-empty and share a type"],
    },
}

CHECKS["C20"] = {
    "replay_test": "TestC20Replay",
    "runs": [
        {"test": "TestC20Ring", "shards_quick": 4, "checks_quick": 50000, "shards_thorough": 16, "checks_thorough": 1000000},
        {"test": "TestC20Store", "shards_quick": 2, "checks_quick": 30000, "shards_thorough": 4, "checks_thorough": 500000},
        {"test": "TestC20Stream", "shards_quick": 2, "checks_quick": 10000, "shards_thorough": 4, "checks_thorough": 200000},
        {"test": "TestC20StreamConcurrent", "shards_quick": 4, "checks_quick": 15000, "shards_thorough": 16, "checks_thorough": 200000},
        {"test": "TestC20SystemStream", "shards_quick": 4, "checks_quick": 4000, "shards_thorough": 16, "checks_thorough": 60000},
    ],
    "fuzz": [{"target": "FuzzC20Ring", "seconds": 60}],
    "rule": "op scripts (add / resize / query(start,count) / recent(count)) on ring buffers of capacity 1-12 with start and count drawn around lowest id, head, last id, capacity, 0 and MaxUint64, "
            "compared with a reference slice; event store scripts (store / collect / set size); stream scripts with subscribers created and closed between publications; streams created "
            "while a concurrent publisher is running. non-trivial = a query inside the available range against a full or resized buffer with start != lowest id, a collect of a full or "
            "resized store, a subscriber created after events were published (while publishing is in progress for the concurrent variant); distinct = hash of the script",
    "assumptions": COMMON_ASSUMPTIONS + ["the concurrent streaming variant depends on the Go scheduler: its oracle is a validity predicate (gap-free, duplicate-free, ordered, inside the requested window) "
                                         "and a failure is re-run up to 200 times from its replay file",
                                         "slow consumer eviction (1000 undelivered events) is outside the generator"],
    "timeout_quick": 600,
    "timeout_thorough": 3000,
}

CHECKS["C14"] = {
    "replay_test": "TestC14Replay|TestWorldReplay",
    "race": True,
    "crash_is_violation": True,
    "unconfirmed_is_violation": True,
    "replay_times": 2,
    "env": {"DEADLOCK_DETECTION_ENABLED": "true", "DEADLOCK_TIMEOUT_SECONDS": "300", "GORACE": "halt_on_error=0"},
    "runs": [{"test": "TestC14", "shards_quick": 12, "checks_quick": 6, "shards_thorough": 8, "checks_thorough": 200, "args": ["-rapid.shrinktime", "1s"]},
             {"test": "TestC14MidCycle", "shards_quick": 4, "checks_quick": 150, "shards_thorough": 4, "checks_thorough": 3000}],
    "rule": "runs of the real asynchronous stack (entry point: scheduling loop, three RM event handler goroutines, RM proxy, timers, quota preemption loop, event system) built with the race "
            "detector and with the lock tracker (go-deadlock) switched on: 3-6 client goroutines send generated request scripts (15-60 requests each: applications incl. gang, asks, releases, "
            "application removals, node add/update/drain/remove, configuration reloads) at the same time, 1-3 reader goroutines call the real REST handlers in process, the shim side confirms "
            "releases from its own goroutine, the lock wrappers yield at a generated rate (build-tagged hook). Oracle: no race report, no lock tracker report, no panic, every request answered, "
            "nothing blocked, and the quiescent oracles of C01/C03/C05/C09 on the settled state and after every application was removed (everything back to zero). non-trivial = at least 60 "
            "requests, 5 allocations and a reload or a placeholder swap in the run; distinct = hash of the generated case. Second run (TestC14MidCycle): synchronous world histories in which "
            "an RM request (release of the ask being allocated, removal of its application, removal or drain of its node, release of a placeholder) is delivered exactly between the two halves "
            "of a scheduling cycle (build-tagged interleaving point), judged by the SI protocol model and the quiescent invariants every step; non-trivial = two different mid-cycle requests delivered",
    "assumptions": COMMON_ASSUMPTIONS + ["the interleavings are those the Go scheduler produces under the generated workload and yield rate: a run is not a pure function of VERIF_SEED, a failure "
                                         "is reported with the recorded request/response history even when re-running its case does not fail again",
                                         "a time budget that runs out is a verdict only when goroutines of the core wait at the same place in two dumps three seconds apart, otherwise inconclusive",
                                         "completing timeout shortened to 50 ms and reservation delay to 0 through the verif timing hook so that timers fire inside a run"],
    "timeout_quick": 900,
    "timeout_thorough": 5400,
}

CHECKS["C15"] = {
    "replay_test": "TestC15Replay",
    "runs": [{"test": "TestC15", "shards_quick": 12, "checks_quick": 700, "shards_thorough": 16, "checks_thorough": 40000}],
    "fuzz": [{"target": "FuzzC15", "seconds": 120}],
    "rule": "configurations valid by construction (depth<=3, sparse maxima, guarantees, max applications, user/group limits with wildcards, templates, placement rules) with 0-3 perturbations "
            "around the documented rule boundaries (maximum above the parent's or above an ancestor's through a level that does not define the type, guaranteed above maximum or above the parent's, "
            "max applications, limits above queue maximum / ancestor / wildcard, sibling names differing only in case, invalid names, placement rules with parents/filters/static paths, child "
            "templates with odd quantities, units, limit order), rendered as YAML; every accepted document must satisfy an independent well-formedness predicate (own quantity parser), start a "
            "new scheduler, load into a running one, and get the same verdict on repeated validation; non-trivial = accepted document of depth>=3 with >=2 sparse maxima, or with a rule chain; "
            "distinct = hash of the YAML",
    "assumptions": COMMON_ASSUMPTIONS + ["soundness only: rejecting a well formed document is not reported", "single partition documents"],
    "timeout_quick": 600,
    "timeout_thorough": 3000,
}

CHECKS["C17"] = {
    "replay_test": "TestC17Replay",
    "runs": [{"test": "TestC17", "shards_quick": 12, "checks_quick": 500, "shards_thorough": 16, "checks_thorough": 20000}],
    "rule": "a queue tree (depth<=2) with submit/admin ACLs on every level, 1-3 placement rules (provided / user / tag / fixed, optional fixed parent rule, allow/deny filters with user and group "
            "lists or a regular expression, create flags), then 5-15 application submissions with users u1-u3 (fixed groups), requested queue in many spellings (qualified, unqualified, parent, "
            "missing, invalid, upper case, recovery queue), namespace tag, force flag, on a real partition; validity of every outcome plus agreement with a three-valued reference evaluator of "
            "the rule chain (accept(q) / reject / don't know); non-trivial = a queue was created by placement, or the reference decided a chain of >=2 rules; distinct = hash of configuration and submissions",
    "assumptions": COMMON_ASSUMPTIONS + ["requested queue names and tag values with upper case letters, names with dots, error paths of the rules (invalid names, parent rule returning a leaf, "
                                         "creation below a leaf) are answered 'don't know' by the reference: only validity is checked for them",
                                         "draining queues and quota tags are not generated here (C16 / C02 cover them)"],
    "timeout_quick": 600,
    "timeout_thorough": 3000,
}

CHECKS["C12"] = {
    "replay_test": "TestC12Replay",
    "replay_times": 10,
    "runs": [{"test": "TestC12", "shards_quick": 14, "checks_quick": 80, "shards_thorough": 16, "checks_thorough": 1500}],
    "rule": "a generated history (10-50 ops, profile restart: gang applications, foreign pods, RM reported allocations, reloads that change quotas, tight quotas, dynamic queues) on a first "
            "core, cut at an op boundary; a second core is started with the latest accepted configuration and is fed the shim model's knowledge (nodes, force created applications, bound "
            "allocations incl. placeholders and foreign pods, outstanding asks) in a generated order that respects only node-before-allocation and application-before-ask; then 8-20 further ops; "
            "non-trivial = at least 3 bound allocations and 1 outstanding ask replayed together with a placeholder or foreign pod, or an application recovered into the recovery queue; "
            "distinct = hash of first history, replay order and continuation",
    "assumptions": [],
    "timeout_quick": 900,
    "timeout_thorough": 3300,
}

WORLD_ASSUMPTIONS = COMMON_ASSUMPTIONS + [
    "interleavings are explored at the granularity of one whole RM event handler / one scheduling cycle (finer interleavings belong to C14)",
    "timers are fired deterministically through hooks, only when the real timer is armed; ask age is 0 or 3600 s",
    "oracles read state through exported getters / REST DAO builders plus three hook accessors",
]


def world(prop, test, rule, quick=(12, 200), thorough=(16, 4000), **kw):
    d = {
        "replay_test": "TestWorldReplay",
        "replay_times": 25,
        "runs": [{"test": test, "shards_quick": quick[0], "checks_quick": quick[1], "shards_thorough": thorough[0], "checks_thorough": thorough[1]}],
        "rule": rule,
        "assumptions": WORLD_ASSUMPTIONS,
        "timeout_quick": 900,
        "timeout_thorough": 3300,
    }
    d.update(kw)
    return d


HIST = "generated histories of SI requests and scheduling cycles (10-80 ops) on a generated valid configuration (queues depth<=3, sparse quotas, limits, templates); distinct = hash of the resolved op trace; "

CHECKS["C12"]["assumptions"] = WORLD_ASSUMPTIONS + ["crash points are op boundaries (the shim has absorbed every message of the last step)",
                                                  "user resolution through the OS / LDAP resolvers is outside the generator; the forced fallback for a user the core cannot resolve is covered with the test resolver"]
CHECKS["C01"] = world("C01", "TestC01", HIST + "profile tight-nodes; non-trivial = a checked scheduler binding onto a node that already held allocations, or a checked binding in a history "
    "with an earlier capacity change / drain / foreign allocation")
CHECKS["C02"] = world("C02", "TestC02", HIST + "profile tight-queues; non-trivial = at least one scheduling decision that raised the usage of a queue on a type its maximum defines "
    "(root: sum of node capacities)")
CHECKS["C03"] = world("C03", "TestC03", HIST + "profile mixed + drain epilogue; non-trivial = at least 5 scheduler bindings and at least one disturbance "
    "(node removal with a swap in flight, application removal with live allocations, release of an unknown/released key, duplicated or dropped confirmation)")
CHECKS["C04"] = world("C04", "TestC04", HIST + "profile gang (placeholders, timeouts, preemption); judged only from SI traffic against the shim model; non-trivial = at least one core initiated "
    "release and a confirmation delivered twice, kept for a duplicate or never")
CHECKS["C05"] = {
    **world("C05", "TestC05", HIST + "profile limits (named users/groups, wildcards, nested, tight); non-trivial = a scheduling decision for a user/group with a configured limit on the "
            "application's queue path; plus sequences of UpdateConfig on ugm.Manager: non-trivial = >=2 reloads of which one changes or drops a limit of a tracker holding usage"),
}
CHECKS["C04"]["runs"].append({"test": "TestC04Reserve", "shards_quick": 4, "checks_quick": 250, "shards_thorough": 8, "checks_thorough": 3000})
CHECKS["C04"]["rule"] += "; second run: profile reserve, non-trivial = a reservation was made and a reserved ask was allocated, released or reported as bound by the shim"
CHECKS["C05"]["runs"].append({"test": "TestC05Reserve", "shards_quick": 8, "checks_quick": 400, "shards_thorough": 8, "checks_thorough": 3000})
CHECKS["C05"]["rule"] += "; second run: profile limits-reserve (small nodes, reservations), non-trivial = a decision under a limit and an allocation of a reserved ask"
CHECKS["C05"]["runs"].append({"test": "TestC05Limits", "shards_quick": 4, "checks_quick": 1000, "shards_thorough": 8, "checks_thorough": 30000})
CHECKS["C05"]["replay_test"] = "TestWorldReplay|TestC05LimitsReplay"
CHECKS["C05"]["rule"] += ("; third run directly on ugm.Manager: sequences of UpdateConfig (fresh configurations and mutations that drop / change / add limit entries) interleaved with "
                          "Headroom, CanRunApp, Increase/DecreaseTrackedResource, compared after every op with 'what the latest configuration says' (REST DAO limits, head room, admission); "
                          "non-trivial = at least 2 reloads of which one changes the limit in force for a user that holds usage")
CHECKS["C06"] = world("C06", "TestC06", HIST + "profile gang (85% gang applications, 1-2 task groups, real asks equal/smaller/larger than the placeholder, timers fired at any point, node removal, "
    "preemption, predicates that refuse the placeholder's node, late/duplicate/missing confirmations); non-trivial = a confirmed swap or a fired placeholder timeout, plus a disturbance "
    "(node removed with a swap in flight, placeholder or real ask cancelled mid swap, preempted placeholder, duplicated or dropped confirmation, application removed with allocations)",
    quick=(14, 250))
CHECKS["C13"] = world("C13", "TestC13", HIST + "profile hostile: a quarter of the ops are requests no protocol following shim would send, built by mutating valid requests against the current state "
    "(unknown/removed/empty ids and partitions, unset sub-messages, zero/negative resources, placeholder without task group, releases of unknown keys or with any termination type, "
    "duplicate applications and nodes, node actions for unknown nodes or without effect, foreign allocations on unknown nodes); the accounting oracle of C03 is used as corruption detector; "
    "non-trivial = a hostile request executed in a world with a bound allocation, a pending ask and a swap in flight, a reservation or a preempted allocation",
    quick=(14, 200))
CHECKS["C13"]["fuzz"] = [{"target": "FuzzC13", "seconds": 150}]
CHECKS["C13"]["replay_test"] = "TestWorldReplay|TestC13FuzzReplay"
CHECKS["C13"]["crash_is_violation"] = True
CHECKS["C19"] = world("C19", "TestC19", HIST + "profile sorting (3-5 children per parent, priority offsets and policies, fair and fifo leaves, priority sorting on/off, asks with priorities incl. far apart "
    "priority classes and three creation times, usage set through RM reported allocations and scheduling, node capacity changes, reloads that change the node sorting policy); after every step: "
    "sorted children of every parent (three calls, map order differs) and the raw sorter on reversed/rotated candidates have no pair ordered against the documented comparator recomputed from "
    "exported getters; same for the applications of every leaf; the pre-sorted asks of every application; both node iterators visit exactly the right nodes once in score order of the current "
    "utilisation; non-trivial = at least 3 queue or application candidates with distinct keys and at least 3 nodes with distinct scores",
    quick=(14, 150))
CHECKS["C16"] = world("C16", "TestC16", HIST + "profile reload: a fifth of the ops are reloads with a mutation of the current configuration (properties, maxima, guarantees, max applications, ACLs, "
    "limits, node sorting policy, placement rules, queues removed at any level, removed queues added back, new queues, identical bytes; about a fifth are rejected by validation or only by the "
    "dry run of the new placement rules), interleaved with scheduling, the queue cleaner and new applications; non-trivial = a reload applied while at least 2 queues hold allocations that "
    "changes a queue's (own or inherited) properties or removes a non-empty queue from the configuration",
    quick=(14, 200))
PRE = ("profile preemption: 3-5 leaf queues per parent with guarantees, maxima, preemption fences / disabled queues, a few priority fences and offsets, preemption delays 1ms / 1h; the "
       "prologue puts an application in up to four leaves, fills every node with running allocations reported by the RM (random sizes, priorities, originators, daemon set pods) and adds "
       "starving old asks that may preempt; then generated traffic with 70% preempting asks, quota preemption triggers, reloads that lower maxima; victims are read from the "
       "PREEMPTED_BY_SCHEDULER releases, the asker from the ask whose 'triggered preemption' flag was raised in the step; ")
CHECKS["C07"] = world("C07", "TestC07", HIST + PRE + "non-trivial = a preemption happened while the pool of running allocations contained at least one ineligible allocation (daemon set pod, "
    "released or already preempted allocation, higher priority, asker's own leaf, queue with preemption disabled)", quick=(14, 180))
CHECKS["C08"] = world("C08", "TestC08", HIST + PRE + "non-trivial = a queue preemption with at least 2 queues carrying guarantees, or a quota preemption", quick=(14, 180))
CHECKS["C09"] = world("C09", "TestC09", HIST + "profile reserve (reservation delay 0, small nodes, 30% required-node asks); non-trivial = a reservation was made and one was removed by "
    "something other than a scheduling cycle (ask/app/node removal, RM reported binding)")
CHECKS["C09"]["runs"].append({"test": "TestC09Preempt", "shards_quick": 8, "checks_quick": 180, "shards_thorough": 8, "checks_thorough": 3000})
CHECKS["C10"] = world("C10", "TestC10", HIST + "profile churn-apps; non-trivial = an application that visited at least 4 states")
CHECKS["C10"]["runs"].append({"test": "TestC10Gang", "shards_quick": 6, "checks_quick": 250, "shards_thorough": 8, "checks_thorough": 4000})
CHECKS["C10"]["rule"] += "; second run: profile gang with frequent releases, non-trivial = an application that visited at least 4 states and a confirmed placeholder replacement"
CHECKS["C11"] = world("C11", "TestC11", HIST + "profile churn-apps with max-applications on leaf/parent/root, templates and tags; non-trivial = the gate was evaluated for a limit on an ancestor "
    "or at least twice")


# ---------------------------------------------------------------------------------------------------
# what MANIFEST.json says per claimed property (tools/gen_manifest.py)

WORLD_NOTE = ("trusts: the harness (synchronous driver, shim reference model, snapshot through exported getters/REST DAO builders), the verif build-tag hooks in /repo, "
              "rapid and the Go toolchain; interleavings only at whole-handler / whole-cycle granularity; oracles are validity predicates (never 'the one expected outcome')")


def _world_meta(what):
    return {
        "level_text": "generated-history search (stateful property-based testing of the real core through a synchronous driver) against " + what +
                      "; no counterexample in N generated histories, absence is not established",
        "level_note": WORLD_NOTE,
        "technique": "stateful property-based testing (rapid state machine over SI requests and scheduling cycles), invariant/reference-model oracle per step, shrunk histories replayed without the library",
    }


META = {
    "C18": {
        "level_text": "generated-input search against a math/big reference; no counterexample in N cases, absence not established",
        "level_note": "trusts the reference model in props/ and the Go toolchain",
        "technique": "property-based testing (rapid) against a big-integer reference model",
    },
    "C20": {
        "level_text": "model-based property testing of the event ring buffer, event store and streaming against reference models (slice truncated to capacity); "
                      "no counterexample in N generated scripts, absence not established",
        "level_note": "trusts the reference models in props/c20_test.go, the verif constructor hooks in pkg/events and the Go toolchain; stream timing is only sampled",
        "technique": "model-based property testing (rapid) against a reference ring buffer; coverage-guided fuzzing of op scripts in the thorough tier",
    },
    "C14": {
        "level_text": "generated concurrent workloads on the real goroutine stack under the Go race detector and the lock tracker, quiescent-state invariants afterwards; "
                      "no race, deadlock, panic or invariant violation in N runs, absence not established (schedules are sampled, not enumerated)",
        "level_note": "trusts the Go race detector, go-deadlock, the harness in harness/async.go (auto-confirming shim, sentinel requests to detect drained event queues) and the snapshot oracles",
        "technique": "property-based generation (rapid) of concurrent client scripts run under the race detector with seeded yield points at lock acquisitions; oracle: detector reports + invariants over the final state",
    },
    "C15": {
        "level_text": "generated-input search: near-valid configuration documents against an independent well-formedness predicate, load/reload of every accepted document into the real "
                      "scheduler and repeated validation; coverage-guided fuzzing of raw YAML bytes in the thorough tier; no counterexample in N documents, absence not established",
        "level_note": "trusts the independent predicate and quantity parser in props/, the harness world for load/reload, the Go toolchain; soundness of validation only",
        "technique": "property-based testing (rapid) with a near-valid mutation generator and an independent validity predicate, plus native go fuzzing of YAML bytes",
    },
    "C17": {
        "level_text": "generated-input search: rule chains, ACL layouts and submissions on a real partition against a validity predicate for every outcome and a differential three-valued reference "
                      "evaluator (first rule whose filter admits the user and whose queue the user may submit to); no counterexample in N cases, absence not established",
        "level_note": "trusts the reference evaluator in props/c17_test.go (which says 'don't know' on error paths), the harness world and the Go toolchain",
        "technique": "property-based testing (rapid): validity predicate + differential against a reference placement evaluator",
    },
    "C01": _world_meta("a per-decision fit/schedulable/reservation/predicate oracle on the pre-step node view and node ledger equalities after every step"),
    "C02": _world_meta("a per-decision queue-maximum oracle along the queue path and the effective-limit ordering after every step"),
    "C03": _world_meta("conservation equalities over application, queue, node and partition ledgers after every step and exact zero after a drain epilogue"),
    "C04": _world_meta("a shim-side reference model that judges the SI traffic only (exactly-once binding, legal releases, one answer per application/node)"),
    "C05": _world_meta("the limits of the latest accepted configuration and usage = sum of live allocations per user/group and queue"),
    "C06": _world_meta("step predicates on swap links (same application and task group, real no larger than placeholder), on confirmations (placeholder gone, real on the announced node, "
                       "node/queue/user usage not above the pre-step values), on placeholder counters, on timeout behaviour per gang style and 'no placeholder outlives its application'"),
    "C13": {
        "level_text": "generated-history search with structurally hostile SI requests mixed into legal traffic (state unchanged + rejection asserted for the classes known to be invalid, "
                      "no panic / no hang / accounting invariants for all) plus coverage-guided byte-level fuzzing of the three request types in the thorough tier; no counterexample in N cases",
        "level_note": WORLD_NOTE + "; 'invalid' is known only for the structured mutation classes; the harness repeats the partition-name normalisation of RMProxy.Update*",
        "technique": "stateful property-based testing (rapid) with hostile request mutation + native go fuzzing of protobuf bytes, oracle: no panic/hang, rejection, state unchanged, accounting invariants",
    },
    "C19": _world_meta("comparator validity on every output pair of the queue / application sorters (keys recomputed from exported getters, permutations of the same candidates), "
                       "order and completeness of the pre-sorted asks, and node iterators against scores recomputed from the current utilisation"),
    "C16": _world_meta("a before/after relation per reload: rejected = observable state identical; accepted = applications, allocations, reservations, nodes and queue totals identical, "
                       "every configured queue shows the new quota / max applications / properties (reference inheritance model), removed queues drain, draining leaves refuse applications, "
                       "the cleaner removes only empty draining or dynamic queues"),
    "C12": _world_meta("a differential between two executions: the restarted core must accept everything the shim model replays and show the totals computed from the shim model "
                       "(and those of the old core when it was quiescent), then satisfy the C01/C02/C03 oracles during a generated continuation"),
    "C07": _world_meta("eligibility predicates for every announced victim on the pre-step view (bound, not released, not preempted, no required node, announced once; for queue preemption: "
                       "asker allows it, waited, other leaf, inside the preemption fence, queue not disabled, shared resource type, priority in the crisp case; required node: on that node, not outranking)"),
    "C08": _world_meta("guarantee predicates on the pre-step view in their weakest sound reading (asker's path has a guarantee; each victim's path has a queue above its share when taken; the "
                       "reserved node's free space plus the victims on it cover the ask; quota victims only where a maximum is exceeded, the feature is on and the delay class can have elapsed) "
                       "and 'preempting = sum of allocations marked preempted' after every step"),
    "C09": _world_meta("equality of the application, node and queue views of the reservation relation and exclusivity rules after every step"),
    "C10": _world_meta("the documented application life-cycle table applied to shim messages and state log, plus state/ledger agreement"),
    "C11": _world_meta("the max-applications gate evaluated on the pre-step queue view and counter sanity after every step"),
}

NOT_APPLICABLE = {}
