"""Per-property run configuration for ./check. One entry per claimed property."""

COMMON_ASSUMPTIONS = [
    "exploration only: no counterexample in the generated cases, absence is not established",
    "single partition 'default'; gRPC transport, metrics, web UI and LDAP/OS user resolution are outside every generator",
    "verif build-tag hooks in /repo (add-only) expose a synchronous dispatcher and read accessors",
]

CHECKS = {
    "C18": {
        "replay_test": "TestC18Replay",
        "runs": [
            {"test": "TestC18Arithmetic", "shards_quick": 4, "checks_quick": 40000, "shards_thorough": 16, "checks_thorough": 400000},
            {"test": "TestC18Quantity", "shards_quick": 2, "checks_quick": 40000, "shards_thorough": 8, "checks_thorough": 400000},
        ],
        "rule": "generated (a,b,c resource vectors over 4 type names incl. nil/empty, int and float ratios) and quantity strings; "
                "non-trivial = an operand holds an extreme value (|v| > MaxInt64/2) or the operands' key sets overlap only partially; "
                "quantity strings: documented grammar with value beyond 2^52 or out of int64 range; distinct = hash of the generated inputs",
        "assumptions": COMMON_ASSUMPTIONS + ["float ratio results compared with the exact product within 2^-50 relative + 1 (two float64 roundings)",
                                             "NaN ratios excluded; *OnlyExisting comparisons asserted only where both operands are non-empty and share a type"],
    },
}

WORLD_ASSUMPTIONS = COMMON_ASSUMPTIONS + [
    "interleavings are explored at the granularity of one whole RM event handler / one scheduling cycle (finer interleavings belong to C14)",
    "timers are fired deterministically through hooks, only when the real timer is armed; ask age is 0 or 3600 s",
    "oracles read state through exported getters / REST DAO builders plus three hook accessors",
]


def world(prop, test, rule, quick=(8, 60), thorough=(16, 1500), **kw):
    d = {
        "replay_test": "TestWorldReplay",
        "replay_times": 25,
        "runs": [{"test": test, "shards_quick": quick[0], "checks_quick": quick[1], "shards_thorough": thorough[0], "checks_thorough": thorough[1]}],
        "rule": rule,
        "assumptions": WORLD_ASSUMPTIONS,
        "timeout_quick": 900,
        "timeout_thorough": 3300,
    }
    d.update(kw)
    return d


CHECKS["C03"] = world("C03", "TestC03",
    "generated histories (10-60 ops + drain epilogue) on a generated valid configuration; non-trivial = at least 5 scheduler bindings and at least one disturbance "
    "(node removal with a swap in flight, application removal with live allocations, release of an unknown/released key, duplicated or dropped confirmation); "
    "distinct = hash of the resolved op trace")
