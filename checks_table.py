"""Per-property run configuration for ./check. One entry per claimed property."""

COMMON_ASSUMPTIONS = [
    "exploration only: no counterexample in the generated cases, absence is not established",
    "single partition 'default'; gRPC transport, metrics, web UI and LDAP/OS user resolution are outside every generator",
    "verif build-tag hooks in /repo (add-only) expose a synchronous dispatcher and read accessors",
]

CHECKS = {
    "C18": {
        "replay_test": "TestC18Replay",
        "runs": [
            {"test": "TestC18Arithmetic", "shards_quick": 4, "checks_quick": 40000, "shards_thorough": 16, "checks_thorough": 400000},
            {"test": "TestC18Quantity", "shards_quick": 2, "checks_quick": 40000, "shards_thorough": 8, "checks_thorough": 400000},
        ],
        "rule": "generated (a,b,c resource vectors over 4 type names incl. nil/empty, int and float ratios) and quantity strings; "
                "non-trivial = an operand holds an extreme value (|v| > MaxInt64/2) or the operands' key sets overlap only partially; "
                "quantity strings: documented grammar with value beyond 2^52 or out of int64 range; distinct = hash of the generated inputs",
        "assumptions": COMMON_ASSUMPTIONS + ["float ratio results compared with the exact product within 2^-50 relative + 1 (two float64 roundings)",
                                             "NaN ratios excluded; *OnlyExisting comparisons asserted only where both operands are non-empty and share a type"],
    },
}
