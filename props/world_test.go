package props

// World-machine checks: generated histories of SI requests and scheduling cycles against a real
// ClusterContext, with the per-property oracle evaluated after every step (harness/oracles*.go).

import (
	"encoding/json"
	"os"
	"strings"
	"testing"
	"time"

	"pgregory.net/rapid"

	"verif/harness"
)

// worldCase is the replayable form of one history.
type worldCase struct {
	Prop     string            `json:"prop"`
	Also     []string          `json:"also,omitempty"`
	Conf     string            `json:"conf"`
	Opts     harness.WorldOpts `json:"opts"`
	Ops      []harness.Op      `json:"ops"`
	Epilogue bool              `json:"epilogue"`
}

type worldCheck struct {
	prop     string
	check    string
	profile  func() *harness.Profile
	nonTriv  func(w *harness.World) bool
	floors   []string
	prologue func(t *rapid.T, w *harness.World, p *harness.Profile)
	also     []string // further oracle sets, "C03=>C13" reports C03 violations as C13 violations
}

func runWorld(t *testing.T, wc worldCheck) {
	st := harness.NewStats(wc.prop)
	defer st.Write()
	defer flushWorldFailure(wc.check)
	rapid.Check(t, func(t *rapid.T) {
		p := wc.profile()
		conf := harness.GenConf(t, p.Conf)
		if p.ConfFn != nil {
			conf = p.ConfFn(t)
		}
		w, why := harness.NewWorld(conf, p.Opts, append([]string{wc.prop}, wc.also...)...)
		if w == nil {
			st.Label("generator-unsound-config", 1)
			t.Skipf("generated configuration rejected: %s", why)
		}
		defer w.Close()
		harness.Warmup(t, w, p)
		if wc.prologue != nil {
			wc.prologue(t, w, p)
		}
		steps := rapid.IntRange(p.MinSteps, p.MaxSteps).Draw(t, "steps")
		for i := 0; i < steps && !w.Dead && len(w.Vios) == 0; i++ {
			op := harness.GenOp(t, w, p)
			if !w.Legal(op) {
				t.Fatalf("generator unsound: illegal op %s", op)
			}
			w.Step(op)
		}
		if os.Getenv("VERIF_DIAG_ASKLOG") != "" && !w.Dead {
			w.TagAskLogs()
		}
		if p.Epilogue && !w.Dead && len(w.Vios) == 0 {
			w.Drain()
			if !w.Dead && len(w.Vios) == 0 {
				w.CheckAllZero()
			}
		}
		finishWorldCase(t, st, wc, w, p.Epilogue)
	})
}

func finishWorldCase(t *rapid.T, st *harness.Stats, wc worldCheck, w *harness.World, epilogue bool) {
	labels := w.TagList()
	if w.Inconclusive != "" {
		st.Label("inconclusive-settle", 1)
		t.Skipf("%s", w.Inconclusive)
	}
	var vio *harness.Violation
	for i := range w.Vios {
		if w.Vios[i].Prop == wc.prop {
			vio = &w.Vios[i]
			break
		}
	}
	if vio == nil {
		for i := range w.Vios {
			if w.Vios[i].Prop == "PANIC" {
				// a panic elsewhere prevents this property's oracle from being evaluated: discard, count
				st.Label("panic-elsewhere", 1)
				st.Case(w.TraceFingerprint(), false, labels, nil)
				return
			}
		}
	}
	nt := wc.nonTriv(w)
	var sample interface{}
	if nt {
		sample = map[string]interface{}{"ops": len(w.Trace), "tags": w.Tags, "trace": truncate(w.Lines, 60)}
	}
	st.Case(w.TraceFingerprint(), nt, labels, sample)
	st.AddSteps(w.StepNo, w.Decisions)
	for k, n := range w.Excls {
		for i := 0; i < n; i++ {
			st.Exclude(k)
		}
	}
	if vio != nil {
		c := worldCase{Prop: wc.prop, Also: wc.also, Conf: w.InitialConf, Opts: w.Opts, Ops: w.Trace, Epilogue: epilogue}
		raw, _ := json.Marshal(c)
		harness.RecordFailure(&harness.Failure{Property: wc.prop, Check: wc.check, Message: vio.Msg, Size: len(w.Trace)*100000 + len(raw), Case: raw, Trace: w.Lines,
			Known: harness.KnownShape(wc.prop, w)})
		t.Fatalf("%s\n%s", vio.Msg, strings.Join(w.Lines, "\n"))
	}
}

// flushWorldFailure minimises the smallest recorded failing history (delta debugging over the op list, legal
// traces only, same failure shape) and writes it out as the replay case.
func flushWorldFailure(check string) {
	f := harness.TakeFailure(check)
	if f == nil {
		return
	}
	var c worldCase
	if err := json.Unmarshal(f.Case, &c); err == nil && len(c.Ops) > 0 {
		ops, w := harness.MinimizeTrace(c.Conf, c.Opts, c.Ops, c.Epilogue, c.Prop, f.Message, 40*time.Second, c.Also...)
		if w != nil {
			c.Ops = ops
			f.Case, _ = json.Marshal(c)
			f.Trace = w.Lines
			for _, v := range w.Vios {
				if v.Prop == c.Prop {
					f.Message = v.Msg
					break
				}
			}
			f.Size = len(ops)
			f.Known = harness.KnownShape(c.Prop, w)
		}
	}
	harness.RecordFailure(f)
	harness.FlushFailure(check)
}

func truncate(l []string, n int) []string {
	if len(l) > n {
		return append(append([]string{}, l[:n]...), "...")
	}
	return l
}

// TestWorldReplay re-executes a recorded history without the PBT library.
func TestWorldReplay(t *testing.T) {
	path := os.Getenv("VERIF_REPLAY")
	if path == "" {
		t.Skip("no replay file")
	}
	f := loadFailure(t, path)
	var c worldCase
	mustUnmarshal(t, f.Case, &c)
	if c.Prop == "" {
		t.Skipf("not a world replay: %s", f.Check)
	}
	w, _, why := harness.ReplayWorld(c.Conf, c.Opts, c.Ops, c.Epilogue, false, append([]string{c.Prop}, c.Also...)...)
	if w == nil {
		t.Fatalf("replay could not start: %s", why)
	}
	for _, v := range w.Vios {
		if v.Prop == c.Prop {
			t.Fatalf("REPLAY-FAIL %s: %s\n%s", f.Check, v.Msg, strings.Join(w.Lines, "\n"))
		}
	}
	t.Logf("replay passed: %d steps\n%s", w.StepNo, strings.Join(w.Lines, "\n"))
}
