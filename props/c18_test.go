package props

// C18 — resource arithmetic and quantity parsing are exact or saturate, never wrap.
// Oracle: math/big reference for every operation, component-wise definitions for predicates,
// purity (arguments deep-equal before/after), nil-safety and no panic for any vector.

import (
	"encoding/json"
	"fmt"
	"math"
	"math/big"
	"os"
	"sort"
	"strings"
	"testing"

	"github.com/apache/yunikorn-core/pkg/common/resources"
	"pgregory.net/rapid"

	"verif/harness"
)

type Q = resources.Quantity
type R = resources.Resource

var c18Keys = []string{"a", "b", "c", "d"}

var boundaryVals = []int64{
	math.MinInt64, math.MinInt64 + 1, math.MinInt64 / 2, -(1 << 53) - 1, -(1 << 53), -(1 << 31) - 1, -(1 << 31), -1000, -2, -1, 0, 1, 2, 3, 100, 1000,
	(1 << 31) - 1, 1 << 31, (1 << 53) - 1, 1 << 53, (1 << 53) + 1, math.MaxInt64 / 2, math.MaxInt64/2 + 1, math.MaxInt64 - 1, math.MaxInt64,
}

func genQuantity() *rapid.Generator[int64] {
	return rapid.OneOf(
		rapid.SampledFrom(boundaryVals),
		rapid.Int64Range(-20, 20),
		rapid.Int64(),
	)
}

// vec is the serialisable form of a generated resource: Nil means a nil *Resource.
type vec struct {
	Nil bool             `json:"nil,omitempty"`
	M   map[string]int64 `json:"m,omitempty"`
}

func (v vec) res() *R {
	if v.Nil {
		return nil
	}
	out := resources.NewResource()
	for k, x := range v.M {
		out.Resources[k] = Q(x)
	}
	return out
}

func genVec() *rapid.Generator[vec] {
	return rapid.Custom(func(t *rapid.T) vec {
		kind := rapid.IntRange(0, 19).Draw(t, "kind")
		if kind == 0 {
			return vec{Nil: true}
		}
		m := map[string]int64{}
		if kind == 1 {
			return vec{M: m}
		}
		for _, k := range c18Keys {
			if rapid.Bool().Draw(t, "has-"+k) {
				m[k] = genQuantity().Draw(t, "v-"+k)
			}
		}
		return vec{M: m}
	})
}

func bigOf(x Q) *big.Int { return big.NewInt(int64(x)) }

var (
	bigMax = big.NewInt(math.MaxInt64)
	bigMin = big.NewInt(math.MinInt64)
)

func clampBig(x *big.Int) Q {
	if x.Cmp(bigMax) > 0 {
		return math.MaxInt64
	}
	if x.Cmp(bigMin) < 0 {
		return math.MinInt64
	}
	return Q(x.Int64())
}

func get(r *R, k string) (Q, bool) {
	if r == nil {
		return 0, false
	}
	v, ok := r.Resources[k]
	return v, ok
}

func keysOf(rs ...*R) []string {
	set := map[string]bool{}
	for _, r := range rs {
		if r != nil {
			for k := range r.Resources {
				set[k] = true
			}
		}
	}
	out := make([]string, 0, len(set))
	for k := range set {
		out = append(out, k)
	}
	sort.Strings(out)
	return out
}

// sameExact: same nil-ness, same key set, same values.
func sameExact(a, b *R) bool {
	if a == nil || b == nil {
		return a == nil && b == nil
	}
	if len(a.Resources) != len(b.Resources) {
		return false
	}
	for k, v := range a.Resources {
		if w, ok := b.Resources[k]; !ok || w != v {
			return false
		}
	}
	return true
}

func show(r *R) string {
	if r == nil {
		return "nil"
	}
	ks := keysOf(r)
	parts := make([]string, 0, len(ks))
	for _, k := range ks {
		parts = append(parts, fmt.Sprintf("%s:%d", k, int64(r.Resources[k])))
	}
	return "{" + strings.Join(parts, ",") + "}"
}

// refBinary builds the reference result of a key-wise clamped binary operation over the given key set.
func refBinary(keys []string, l, r *R, op func(a, b *big.Int) *big.Int) *R {
	out := resources.NewResource()
	for _, k := range keys {
		a, _ := get(l, k)
		b, _ := get(r, k)
		out.Resources[k] = clampBig(op(bigOf(a), bigOf(b)))
	}
	return out
}

func bigAdd(a, b *big.Int) *big.Int { return new(big.Int).Add(a, b) }
func bigSub(a, b *big.Int) *big.Int { return new(big.Int).Sub(a, b) }

type c18case struct {
	A     vec     `json:"a"`
	B     vec     `json:"b"`
	C     vec     `json:"c"`
	IntM  int64   `json:"int_ratio"`
	FltM  float64 `json:"float_ratio"`
	Alias bool    `json:"alias"`
}

func genRatio() *rapid.Generator[float64] {
	return rapid.OneOf(
		rapid.SampledFrom([]float64{0, 1, -1, 0.5, -0.5, 2, 1e-9, 1e-300, 1e18, 1e19, -1e19, 1e300, 0.1, 0.999999, 1.0000000000000002, 100, math.Inf(1), math.Inf(-1), math.SmallestNonzeroFloat64}),
		rapid.Float64Range(-10, 10),
		rapid.Float64(),
	).Filter(func(f float64) bool { return !math.IsNaN(f) })
}

// checkC18 runs every operation on the case and returns a description of the first disagreement.
func checkC18(c c18case) (msg string) {
	defer func() {
		if r := recover(); r != nil {
			msg = fmt.Sprintf("panic: %v", r)
		}
	}()
	a, b := c.A.res(), c.B.res()
	if c.Alias {
		b = a
	}
	a0, b0 := a.Clone(), b.Clone()
	pure := func(op string) string {
		if !sameExact(a, a0) || (!c.Alias && !sameExact(b, b0)) {
			return fmt.Sprintf("%s modified an argument: a %s -> %s, b %s -> %s", op, show(a0), show(a), show(b0), show(b))
		}
		return ""
	}
	union := keysOf(a, b)

	// --- Add / Sub: union of keys, exact or clamped
	if got, want := resources.Add(a, b), refBinary(union, a, b, bigAdd); !sameExact(got, want) {
		return fmt.Sprintf("Add(%s,%s)=%s want %s", show(a), show(b), show(got), show(want))
	}
	if got, want := resources.Sub(a, b), refBinary(union, a, b, bigSub); !sameExact(got, want) {
		return fmt.Sprintf("Sub(%s,%s)=%s want %s", show(a), show(b), show(got), show(want))
	}
	if m := pure("Add/Sub"); m != "" {
		return m
	}
	// --- AddTo / SubFrom on a copy of a
	if a != nil {
		x := a.Clone()
		x.AddTo(b)
		if want := refBinary(union, a, b, bigAdd); !sameExact(x, want) {
			return fmt.Sprintf("%s.AddTo(%s)=%s want %s", show(a), show(b), show(x), show(want))
		}
		y := a.Clone()
		y.SubFrom(b)
		if want := refBinary(union, a, b, bigSub); !sameExact(y, want) {
			return fmt.Sprintf("%s.SubFrom(%s)=%s want %s", show(a), show(b), show(y), show(want))
		}
		// aliasing: x.AddTo(x) doubles, x.SubFrom(x) zeroes
		z := a.Clone()
		z.AddTo(z)
		if want := refBinary(keysOf(a), a, a, bigAdd); !sameExact(z, want) {
			return fmt.Sprintf("x.AddTo(x) for %s = %s want %s", show(a), show(z), show(want))
		}
		z = a.Clone()
		z.SubFrom(z)
		if want := refBinary(keysOf(a), a, a, bigSub); !sameExact(z, want) {
			return fmt.Sprintf("x.SubFrom(x) for %s = %s want %s", show(a), show(z), show(want))
		}
	} else {
		var n *R
		n.AddTo(b)
		n.SubFrom(b)
		n.MultiplyTo(c.FltM)
		n.Prune()
	}
	if m := pure("AddTo/SubFrom"); m != "" {
		return m
	}
	// --- *OnlyExisting arithmetic: base nil or delta nil -> clone of base; else keys of base
	for _, oe := range []struct {
		name string
		f    func(x, y *R) *R
		op   func(x, y *big.Int) *big.Int
	}{{"AddOnlyExisting", resources.AddOnlyExisting, bigAdd}, {"SubOnlyExisting", resources.SubOnlyExisting, bigSub}} {
		got := oe.f(a, b)
		var want *R
		switch {
		case a == nil:
			want = nil
		case b == nil:
			want = a.Clone()
		default:
			want = refBinary(keysOf(a), a, b, oe.op)
		}
		if !sameExact(got, want) {
			return fmt.Sprintf("%s(%s,%s)=%s want %s", oe.name, show(a), show(b), show(got), show(want))
		}
	}
	// --- SubErrorNegative / SubEliminateNegative
	{
		got, err := resources.SubErrorNegative(a, b)
		got2 := resources.SubEliminateNegative(a, b)
		if !sameExact(got, got2) {
			return fmt.Sprintf("SubErrorNegative and SubEliminateNegative disagree: %s vs %s", show(got), show(got2))
		}
		if got == nil {
			return "SubErrorNegative returned nil"
		}
		wantErr := false
		for _, k := range union {
			av, _ := get(a, k)
			bv, inB := get(b, k)
			gv, ok := got.Resources[k]
			if !ok {
				return fmt.Sprintf("SubErrorNegative(%s,%s)=%s misses key %s", show(a), show(b), show(got), k)
			}
			exact := bigSub(bigOf(av), bigOf(bv))
			if inB {
				// a type that is part of the subtraction: exact or clamped, negative reset to zero and reported
				want := clampBig(exact)
				if exact.Sign() < 0 {
					want = 0
					wantErr = true
				}
				if gv != want {
					return fmt.Sprintf("SubErrorNegative(%s,%s)[%s]=%d want %d", show(a), show(b), k, int64(gv), int64(want))
				}
			} else if gv != av && !(av < 0 && gv == 0) {
				// type only in left: nothing is subtracted; (the comment allows resetting a negative value)
				return fmt.Sprintf("SubErrorNegative(%s,%s)[%s]=%d want %d", show(a), show(b), k, int64(gv), int64(av))
			}
		}
		if len(got.Resources) != len(union) {
			return fmt.Sprintf("SubErrorNegative(%s,%s)=%s has extra keys", show(a), show(b), show(got))
		}
		if (err != nil) != wantErr {
			return fmt.Sprintf("SubErrorNegative(%s,%s) err=%v want error=%v", show(a), show(b), err, wantErr)
		}
	}
	// --- Multiply (int)
	{
		got := resources.Multiply(a, c.IntM)
		want := resources.NewResource()
		if a != nil && c.IntM != 0 {
			for k, v := range a.Resources {
				want.Resources[k] = clampBig(new(big.Int).Mul(bigOf(v), big.NewInt(c.IntM)))
			}
		}
		if !sameExact(got, want) {
			return fmt.Sprintf("Multiply(%s,%d)=%s want %s", show(a), c.IntM, show(got), show(want))
		}
	}
	// --- MultiplyBy / MultiplyTo (float): trunc(exact product) within float rounding, clamped, never the wrong sign
	{
		got := resources.MultiplyBy(a, c.FltM)
		var inPlace *R
		if a != nil {
			inPlace = a.Clone()
			inPlace.MultiplyTo(c.FltM)
		}
		if got == nil {
			return "MultiplyBy returned nil"
		}
		wantKeys := 0
		if a != nil && c.FltM != 0 {
			wantKeys = len(a.Resources)
		}
		if len(got.Resources) != wantKeys {
			return fmt.Sprintf("MultiplyBy(%s,%g)=%s wrong key set", show(a), c.FltM, show(got))
		}
		if a != nil {
			for k, v := range a.Resources {
				if m := checkMulRatio(v, c.FltM, inPlace.Resources[k]); m != "" {
					return fmt.Sprintf("%s.MultiplyTo(%g)[%s]: %s", show(a), c.FltM, k, m)
				}
				if c.FltM != 0 {
					if m := checkMulRatio(v, c.FltM, got.Resources[k]); m != "" {
						return fmt.Sprintf("MultiplyBy(%s,%g)[%s]: %s", show(a), c.FltM, k, m)
					}
				}
			}
		}
	}
	if m := pure("Multiply*"); m != "" {
		return m
	}
	// --- fit predicates
	{
		wantFit, wantUndef, wantActual := true, true, true
		if b != nil {
			for k, sv := range b.Resources {
				lv, ok := get(a, k)
				if sv > max(0, lv) {
					wantFit = false
				}
				if ok && sv > max(0, lv) {
					wantUndef = false
				}
				if ok && sv > lv {
					wantActual = false
				}
			}
		}
		if got := a.FitIn(b); got != wantFit {
			return fmt.Sprintf("%s.FitIn(%s)=%v want %v", show(a), show(b), got, wantFit)
		}
		if got := a.FitInMaxUndef(b); got != wantUndef {
			return fmt.Sprintf("%s.FitInMaxUndef(%s)=%v want %v", show(a), show(b), got, wantUndef)
		}
		if got := a.FitInActual(b); got != wantActual {
			return fmt.Sprintf("%s.FitInActual(%s)=%v want %v", show(a), show(b), got, wantActual)
		}
	}
	// --- comparisons over the union, missing = 0
	{
		allGE, anyNE := true, false
		for _, k := range union {
			lv, _ := get(a, k)
			sv, _ := get(b, k)
			if lv < sv {
				allGE = false
			}
			if lv != sv {
				anyNE = true
			}
		}
		if got := resources.StrictlyGreaterThanOrEquals(a, b); got != allGE {
			return fmt.Sprintf("StrictlyGreaterThanOrEquals(%s,%s)=%v want %v", show(a), show(b), got, allGE)
		}
		if got := resources.StrictlyGreaterThan(a, b); got != (allGE && anyNE) {
			return fmt.Sprintf("StrictlyGreaterThan(%s,%s)=%v want %v", show(a), show(b), got, allGE && anyNE)
		}
		wantEq := !anyNE
		if (a == nil) != (b == nil) {
			wantEq = false
		}
		if got := resources.Equals(a, b); got != wantEq {
			return fmt.Sprintf("Equals(%s,%s)=%v want %v", show(a), show(b), got, wantEq)
		}
		wantDeep := sameExact(a, b)
		if got := resources.DeepEquals(a, b); got != wantDeep {
			return fmt.Sprintf("DeepEquals(%s,%s)=%v want %v", show(a), show(b), got, wantDeep)
		}
		wantEqEmpty := wantEq || (refIsZero(a) && refIsZero(b))
		if got := resources.EqualsOrEmpty(a, b); got != wantEqEmpty {
			return fmt.Sprintf("EqualsOrEmpty(%s,%s)=%v want %v", show(a), show(b), got, wantEqEmpty)
		}
		// OnlyExisting variants: asserted only where both are non-empty and share a type
		common := 0
		oeGE, oeNE := true, false
		if a != nil && b != nil {
			for k, lv := range a.Resources {
				if sv, ok := b.Resources[k]; ok {
					common++
					if sv > lv {
						oeGE = false
					}
					if sv != lv {
						oeNE = true
					}
				}
			}
		}
		g1 := a.StrictlyGreaterThanOnlyExisting(b)
		g2 := a.StrictlyGreaterThanOrEqualsOnlyExisting(b)
		if common > 0 {
			if g2 != oeGE {
				return fmt.Sprintf("%s.StrictlyGreaterThanOrEqualsOnlyExisting(%s)=%v want %v", show(a), show(b), g2, oeGE)
			}
			if g1 != (oeGE && oeNE) {
				return fmt.Sprintf("%s.StrictlyGreaterThanOnlyExisting(%s)=%v want %v", show(a), show(b), g1, oeGE && oeNE)
			}
		}
		if a.StrictlyGreaterThanOnlyExisting(b) != g1 || a.StrictlyGreaterThanOrEqualsOnlyExisting(b) != g2 {
			return "OnlyExisting comparison is not deterministic"
		}
	}
	// --- unary predicates
	for _, x := range []*R{a, b} {
		if got, want := resources.IsZero(x), refIsZero(x); got != want {
			return fmt.Sprintf("IsZero(%s)=%v", show(x), got)
		}
		pos, neg := false, false
		if x != nil {
			for _, v := range x.Resources {
				pos = pos || v > 0
				neg = neg || v < 0
			}
		}
		if got := resources.StrictlyGreaterThanZero(x); got != (pos && !neg) {
			return fmt.Sprintf("StrictlyGreaterThanZero(%s)=%v", show(x), got)
		}
		if got := x.HasNegativeValue(); got != neg {
			return fmt.Sprintf("%s.HasNegativeValue()=%v", show(x), got)
		}
		if got := x.IsEmpty(); got != (x == nil || len(x.Resources) == 0) {
			return fmt.Sprintf("%s.IsEmpty()=%v", show(x), got)
		}
		// Clone / proto round trip / DAO map / prune
		cl := x.Clone()
		if !sameExact(cl, x) {
			return fmt.Sprintf("Clone(%s)=%s", show(x), show(cl))
		}
		rt := resources.NewResourceFromProto(x.ToProto())
		if x == nil {
			if rt == nil || len(rt.Resources) != 0 {
				return "proto round trip of nil is not empty"
			}
		} else if !sameExact(rt, x) {
			return fmt.Sprintf("proto round trip %s -> %s", show(x), show(rt))
		}
		dm := x.DAOMap()
		if x != nil {
			if len(dm) != len(x.Resources) {
				return "DAOMap key set differs"
			}
			for k, v := range x.Resources {
				if dm[k] != int64(v) {
					return "DAOMap value differs"
				}
			}
			p := x.Clone()
			p.Prune()
			for k, v := range x.Resources {
				pv, ok := p.Resources[k]
				if (v == 0) == ok || (ok && pv != v) {
					return fmt.Sprintf("Prune(%s)=%s", show(x), show(p))
				}
			}
		} else if len(dm) != 0 {
			return "DAOMap of nil not empty"
		}
	}
	{
		want := false
		if a != nil && b != nil {
			for k := range a.Resources {
				if _, ok := b.Resources[k]; ok {
					want = true
				}
			}
			if a == b {
				want = true
			}
		}
		if got := a.MatchAny(b); got != want {
			return fmt.Sprintf("%s.MatchAny(%s)=%v want %v", show(a), show(b), got, want)
		}
	}
	// --- component wise min / max / merge
	{
		var wantMin, wantMinOE, wantMerge *R
		switch {
		case a == nil && b == nil:
		case a == nil:
			wantMin, wantMerge = b.Clone(), b.Clone()
		case b == nil:
			wantMin, wantMinOE, wantMerge = a.Clone(), a.Clone(), a.Clone()
		default:
			wantMin, wantMinOE, wantMerge = resources.NewResource(), resources.NewResource(), resources.NewResource()
			for _, k := range union {
				lv, lok := get(a, k)
				rv, rok := get(b, k)
				switch {
				case lok && rok:
					wantMin.Resources[k] = min(lv, rv)
					wantMinOE.Resources[k] = min(lv, rv)
					wantMerge.Resources[k] = lv
				case lok:
					wantMin.Resources[k] = lv
					wantMinOE.Resources[k] = lv
					wantMerge.Resources[k] = lv
				default:
					wantMin.Resources[k] = rv
					wantMerge.Resources[k] = rv
				}
			}
		}
		if got := resources.ComponentWiseMin(a, b); !sameExact(got, wantMin) {
			return fmt.Sprintf("ComponentWiseMin(%s,%s)=%s want %s", show(a), show(b), show(got), show(wantMin))
		}
		if got := resources.ComponentWiseMinOnlyExisting(a, b); !sameExact(got, wantMinOE) {
			return fmt.Sprintf("ComponentWiseMinOnlyExisting(%s,%s)=%s want %s", show(a), show(b), show(got), show(wantMinOE))
		}
		if got := resources.MergeIfNotPresent(a, b); !sameExact(got, wantMerge) {
			return fmt.Sprintf("MergeIfNotPresent(%s,%s)=%s want %s", show(a), show(b), show(got), show(wantMerge))
		}
		wantMax := resources.NewResource()
		if a != nil && b != nil {
			for _, k := range union {
				lv, _ := get(a, k)
				rv, _ := get(b, k)
				wantMax.Resources[k] = max(lv, rv)
			}
		}
		if got := resources.ComponentWiseMax(a, b); !sameExact(got, wantMax) {
			return fmt.Sprintf("ComponentWiseMax(%s,%s)=%s want %s", show(a), show(b), show(got), show(wantMax))
		}
	}
	// --- CalculateAbsUsedCapacity: documented definition, one unit of float tolerance
	{
		got := resources.CalculateAbsUsedCapacity(a, b)
		if got == nil {
			return "CalculateAbsUsedCapacity returned nil"
		}
		if a != nil && b != nil {
			for k, cv := range a.Resources {
				uv, ok := b.Resources[k]
				gv, gok := got.Resources[k]
				if !ok {
					if gok {
						return fmt.Sprintf("CalculateAbsUsedCapacity(%s,%s) reports unused type %s", show(a), show(b), k)
					}
					continue
				}
				switch {
				case uv <= 0:
					if gv != 0 {
						return fmt.Sprintf("CalculateAbsUsedCapacity(%s,%s)[%s]=%d want 0", show(a), show(b), k, int64(gv))
					}
				case cv <= 0:
					if gv != 100 {
						return fmt.Sprintf("CalculateAbsUsedCapacity(%s,%s)[%s]=%d want 100", show(a), show(b), k, int64(gv))
					}
				default:
					exact := new(big.Int).Div(new(big.Int).Mul(bigOf(uv), big.NewInt(100)), bigOf(cv))
					want := exact
					if exact.Cmp(big.NewInt(math.MaxInt32)) > 0 {
						want = big.NewInt(math.MaxInt32)
					}
					diff := new(big.Int).Sub(bigOf(gv), want)
					if diff.CmpAbs(big.NewInt(1)) > 0 {
						return fmt.Sprintf("CalculateAbsUsedCapacity(%s,%s)[%s]=%d want %s", show(a), show(b), k, int64(gv), want)
					}
				}
			}
		} else if len(got.Resources) != 0 {
			return "CalculateAbsUsedCapacity with nil input not empty"
		}
	}
	// --- everything else: nil-safe, no panic, pure, deterministic
	cres := c.C.res()
	c0 := cres.Clone()
	s1, s2 := a.FitInScore(b), a.FitInScore(b)
	// the score is a float sum in map order: equal up to summation order only
	if math.Abs(s1-s2) > 1e-9 || math.IsNaN(s1) {
		return "FitInScore not deterministic"
	}
	if s1 < 0 || (b != nil && s1 > float64(len(b.Resources))+1e-9) {
		return fmt.Sprintf("%s.FitInScore(%s)=%g outside [0,#types]", show(a), show(b), s1)
	}
	sh := resources.GetShares(a, b)
	if !sort.Float64sAreSorted(sh) {
		return "GetShares not sorted"
	}
	_ = resources.GetSharesTypeWise(a, b)
	r1, r2 := resources.CompUsageRatio(a, b, cres), resources.CompUsageRatio(b, a, cres)
	if r1 != -r2 {
		return fmt.Sprintf("CompUsageRatio not antisymmetric for %s %s total %s: %d %d", show(a), show(b), show(cres), r1, r2)
	}
	q1, q2 := resources.CompUsageRatioSeparately(a, b, cres, b, a, cres), resources.CompUsageRatioSeparately(b, a, cres, a, b, cres)
	if q1 != -q2 {
		return "CompUsageRatioSeparately not antisymmetric"
	}
	_ = resources.CompUsageRatioSpecificTypes(a, b, cres, a)
	_ = resources.CompUsageRatioSpecificTypes(a, b, cres, nil)
	_ = resources.FairnessRatio(a, b, cres)
	_ = a.DominantResourceType(b)
	_ = a.TypeMatching(b)
	_ = b.TypeMatching(a)
	_ = a.String()
	if !sameExact(cres, c0) {
		return "third argument modified"
	}
	return pure("misc")
}

func refIsZero(x *R) bool {
	if x == nil {
		return true
	}
	for _, v := range x.Resources {
		if v != 0 {
			return false
		}
	}
	return true
}

// checkMulRatio compares one float multiplication with the exact real product.
func checkMulRatio(v Q, ratio float64, got Q) string {
	if v == 0 || ratio == 0 {
		if got != 0 {
			return fmt.Sprintf("%d*%g=%d want 0", int64(v), ratio, int64(got))
		}
		return ""
	}
	var want Q
	var exactInt *big.Int
	if math.IsInf(ratio, 0) {
		if (ratio > 0) == (v > 0) {
			want = math.MaxInt64
		} else {
			want = math.MinInt64
		}
		if got != want {
			return fmt.Sprintf("%d*%g=%d want %d", int64(v), ratio, int64(got), int64(want))
		}
		return ""
	}
	exact := new(big.Float).SetPrec(256).SetInt64(int64(v))
	exact.Mul(exact, new(big.Float).SetPrec(256).SetFloat64(ratio))
	exactInt, _ = exact.Int(nil) // truncation towards zero
	want = clampBig(exactInt)
	// sign: never the opposite sign of the exact result
	if (exactInt.Sign() > 0 && got < 0) || (exactInt.Sign() < 0 && got > 0) {
		return fmt.Sprintf("%d*%g=%d has the wrong sign (exact %s)", int64(v), ratio, int64(got), exactInt)
	}
	// tolerance: two float64 roundings (2^-52 relative each, generous) plus one unit for truncation
	tol := new(big.Int).Rsh(new(big.Int).Abs(exactInt), 50)
	tol.Add(tol, big.NewInt(1))
	diff := new(big.Int).Sub(bigOf(got), bigOf(want))
	if diff.CmpAbs(tol) > 0 {
		return fmt.Sprintf("%d*%g=%d want %d (exact %s, tolerance %s)", int64(v), ratio, int64(got), int64(want), exactInt, tol)
	}
	return ""
}

func c18NonTrivial(c c18case) (bool, []string) {
	var labels []string
	extreme := false
	for _, v := range []vec{c.A, c.B} {
		if v.Nil {
			labels = append(labels, "nil-operand")
		}
		for _, x := range v.M {
			if x == math.MinInt64 || x == math.MaxInt64 || x > math.MaxInt64/2 || x < math.MinInt64/2 {
				extreme = true
			}
		}
	}
	overlap, only := 0, 0
	for k := range c.A.M {
		if _, ok := c.B.M[k]; ok {
			overlap++
		} else {
			only++
		}
	}
	for k := range c.B.M {
		if _, ok := c.A.M[k]; !ok {
			only++
		}
	}
	partial := overlap > 0 && only > 0
	if extreme {
		labels = append(labels, "extreme-value")
	}
	if partial {
		labels = append(labels, "partial-overlap")
	}
	if c.Alias {
		labels = append(labels, "aliased")
	}
	return extreme || partial, labels
}

func TestC18Arithmetic(t *testing.T) {
	st := harness.NewStats("C18")
	defer st.Write()
	defer harness.FlushFailure("C18/arith")
	rapid.Check(t, func(t *rapid.T) {
		c := c18case{
			A:     genVec().Draw(t, "a"),
			B:     genVec().Draw(t, "b"),
			C:     genVec().Draw(t, "c"),
			IntM:  genQuantity().Draw(t, "intRatio"),
			FltM:  genRatio().Draw(t, "floatRatio"),
			Alias: rapid.IntRange(0, 9).Draw(t, "alias") == 0,
		}
		nt, labels := c18NonTrivial(c)
		raw, _ := json.Marshal(c)
		st.Case(harness.Fingerprint(string(raw)), nt, labels, c)
		if msg := checkC18(c); msg != "" {
			harness.RecordFailure(&harness.Failure{Property: "C18", Check: "C18/arith", Message: msg, Size: len(raw), Case: raw})
			t.Fatalf("%s", msg)
		}
	})
}

// ---------------------------------------------------------------------------------------------
// quantity parsing

type qcase struct {
	S     string `json:"s"`
	Milli bool   `json:"milli"`
}

var refMult = map[string]*big.Int{
	"": big.NewInt(1), "k": big.NewInt(1e3), "M": big.NewInt(1e6), "G": big.NewInt(1e9), "T": big.NewInt(1e12), "P": big.NewInt(1e15), "E": big.NewInt(1e18),
	"Ki": big.NewInt(1 << 10), "Mi": big.NewInt(1 << 20), "Gi": big.NewInt(1 << 30), "Ti": big.NewInt(1 << 40), "Pi": big.NewInt(1 << 50), "Ei": big.NewInt(1 << 60),
}

// refParse: the documented grammar <digits><suffix>, exact value as big integer. ok=false when the string is
// not in the documented grammar. Surrounding/inner blanks are tolerated (the code trims), value is unaffected.
func refParse(s string, milli bool) (val *big.Int, ok bool, canonical bool) {
	trim := strings.TrimSpace(s)
	i := 0
	for i < len(trim) && trim[i] >= '0' && trim[i] <= '9' {
		i++
	}
	if i == 0 {
		return nil, false, false
	}
	digits := trim[:i]
	rest := trim[i:]
	suffix := strings.TrimLeft(rest, " \t\n\v\f\r")
	canonical = suffix == rest && trim == s
	n, good := new(big.Int).SetString(digits, 10)
	if !good {
		return nil, false, false
	}
	if suffix == "m" {
		if !milli {
			return nil, false, false
		}
		return n, true, canonical
	}
	m, known := refMult[suffix]
	if !known {
		return nil, false, false
	}
	n.Mul(n, m)
	if milli {
		n.Mul(n, big.NewInt(1000))
	}
	return n, true, canonical
}

func checkQuantity(c qcase) (msg string) {
	defer func() {
		if r := recover(); r != nil {
			msg = fmt.Sprintf("panic: %v", r)
		}
	}()
	var got Q
	var err error
	if c.Milli {
		got, err = resources.ParseVCore(c.S)
	} else {
		got, err = resources.ParseQuantity(c.S)
	}
	want, ok, canonical := refParse(c.S, c.Milli)
	if err == nil {
		if !ok {
			return fmt.Sprintf("parse(%q,milli=%v)=%d but the string is not a documented quantity", c.S, c.Milli, int64(got))
		}
		if !want.IsInt64() || want.Int64() != int64(got) {
			return fmt.Sprintf("parse(%q,milli=%v)=%d, exact value is %s", c.S, c.Milli, int64(got), want)
		}
		return ""
	}
	if got != 0 {
		return fmt.Sprintf("parse(%q) returned error and non-zero value %d", c.S, int64(got))
	}
	if ok && canonical && want.IsInt64() {
		return fmt.Sprintf("parse(%q,milli=%v) failed (%v) for a documented in-range quantity %s", c.S, c.Milli, err, want)
	}
	return ""
}

func genQuantityString() *rapid.Generator[string] {
	suffixes := []string{"", "k", "M", "G", "T", "P", "E", "Ki", "Mi", "Gi", "Ti", "Pi", "Ei", "m", "K", "mi", "ki", "i", "e", "Zi", "kk", " k", "k "}
	numbers := []string{"0", "1", "7", "8", "9", "10", "1023", "1024", "9223372036854775807", "9223372036854775808", "9223372036854775", "9223372036854776", "9007199254740993",
		"8589934591", "8589934592", "18446744073709551616", "000", "007", "9223372036", "9223372037", "8191", "8192", "8388607", "8388608", "8", "-1", "+1", "1.5", "1e3", "0x10", "", " ", "１２"}
	return rapid.OneOf(
		rapid.Custom(func(t *rapid.T) string {
			return rapid.SampledFrom(numbers).Draw(t, "num") + rapid.SampledFrom(suffixes).Draw(t, "suffix")
		}),
		rapid.Custom(func(t *rapid.T) string {
			n := rapid.Uint64().Draw(t, "n")
			sh := rapid.IntRange(0, 63).Draw(t, "shift")
			return fmt.Sprintf("%d", n>>uint(sh)) + rapid.SampledFrom(suffixes[:14]).Draw(t, "suffix")
		}),
		rapid.Custom(func(t *rapid.T) string {
			pre := rapid.SampledFrom([]string{"", " ", "\t", "\n"}).Draw(t, "pre")
			return pre + rapid.StringMatching(`[0-9]{1,22}[ ]?[mkKMGTPEi]{0,3}`).Draw(t, "s") + rapid.SampledFrom([]string{"", " ", "\n"}).Draw(t, "post")
		}),
		rapid.String(),
	)
}

func TestC18Quantity(t *testing.T) {
	st := harness.NewStats("C18")
	defer st.Write()
	defer harness.FlushFailure("C18/quantity")
	rapid.Check(t, func(t *rapid.T) {
		c := qcase{S: genQuantityString().Draw(t, "s"), Milli: rapid.Bool().Draw(t, "milli")}
		want, ok, _ := refParse(c.S, c.Milli)
		labels := []string{"q-not-grammar"}
		nt := false
		if ok {
			labels = []string{"q-grammar-in-range"}
			if !want.IsInt64() {
				labels = []string{"q-grammar-overflow"}
				nt = true
			} else if want.BitLen() > 52 {
				labels = append(labels, "q-near-limit")
				nt = true
			}
		}
		raw, _ := json.Marshal(c)
		st.Case(harness.Fingerprint("q"+string(raw)), nt, labels, c)
		if msg := checkQuantity(c); msg != "" {
			harness.RecordFailure(&harness.Failure{Property: "C18", Check: "C18/quantity", Message: msg, Size: len(raw), Case: raw})
			t.Fatalf("%s", msg)
		}
		// the config level entry point uses the same parsers per key
		r, err := resources.NewResourceFromConf(map[string]string{"memory": c.S, "vcore": c.S})
		if err == nil {
			if w, ok, _ := refParse(c.S, false); !ok || !w.IsInt64() || w.Int64() != int64(r.Resources["memory"]) {
				t.Fatalf("NewResourceFromConf memory %q = %d", c.S, int64(r.Resources["memory"]))
			}
			if w, ok, _ := refParse(c.S, true); !ok || !w.IsInt64() || w.Int64() != int64(r.Resources["vcore"]) {
				t.Fatalf("NewResourceFromConf vcore %q = %d", c.S, int64(r.Resources["vcore"]))
			}
		}
	})
}

// TestC18Replay re-executes a recorded failing case without the PBT library.
func TestC18Replay(t *testing.T) {
	path := os.Getenv("VERIF_REPLAY")
	if path == "" {
		t.Skip("no replay file")
	}
	f := loadFailure(t, path)
	var msg string
	switch f.Check {
	case "C18/arith":
		var c c18case
		mustUnmarshal(t, f.Case, &c)
		msg = checkC18(c)
	case "C18/quantity":
		var c qcase
		mustUnmarshal(t, f.Case, &c)
		msg = checkQuantity(c)
	default:
		t.Skipf("not a C18 replay: %s", f.Check)
	}
	if msg != "" {
		t.Fatalf("REPLAY-FAIL %s: %s", f.Check, msg)
	}
}
