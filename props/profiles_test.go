package props

import (
	"github.com/apache/yunikorn-core/pkg/common/configs"
	"os"
	"strconv"
	"testing"

	"pgregory.net/rapid"

	"verif/harness"
)

func mixedProfile() *harness.Profile {
	return &harness.Profile{
		Name:     "mixed",
		Conf:     harness.ConfOpts{MaxDepth: 2, Limits: true, MaxApps: true, Quotas: true, Templates: true, FifoOnly: true},
		Opts:     harness.WorldOpts{ReserveNow: true},
		Weights:  harness.BaseWeights(),
		MinSteps: 10, MaxSteps: 80,
		NodeLo: 6, NodeHi: 24, AskLo: 1, AskHi: 8,
		GangProb: 30, ReqNodeProb: 8, PreemptProb: 20, OldAskProb: 50, BadQueueProb: 5, TagQuotaProb: 10,
		Epilogue: true, Warmup: true,
	}
}

// tight nodes: asks sized 30-120 % of node free space, frequent capacity changes, foreign pods, predicates
func tightNodesProfile() *harness.Profile {
	p := mixedProfile()
	p.Name = "tight-nodes"
	p.Conf = harness.ConfOpts{MaxDepth: 2, Quotas: true, FifoOnly: true}
	p.Weights = harness.With(harness.BaseWeights(), map[string]int{harness.OpUpdNode: 6, harness.OpForeign: 5, harness.OpReportBound: 4, harness.OpSetPred: 5,
		harness.OpAddAsk: 20, harness.OpDrainNode: 2, harness.OpUndrainNode: 2, harness.OpDecomNode: 2, harness.OpReload: 0})
	p.NodeLo, p.NodeHi, p.AskLo, p.AskHi = 4, 12, 1, 9
	p.GangProb, p.ReqNodeProb = 20, 15
	p.Epilogue = false
	return p
}

// tight queues: deep trees with sparse small maxima, templates, tag quotas, reloads that lower maxima
func tightQueuesProfile() *harness.Profile {
	p := mixedProfile()
	p.Name = "tight-queues"
	p.Conf = harness.ConfOpts{MaxDepth: 3, Quotas: true, Templates: true, TightQuota: true, FifoOnly: true}
	p.Weights = harness.With(harness.BaseWeights(), map[string]int{harness.OpAddAsk: 20, harness.OpAddApp: 7, harness.OpReportBound: 3, harness.OpReload: 2, harness.OpUpdAsk: 2})
	p.NodeLo, p.NodeHi, p.AskLo, p.AskHi = 10, 30, 1, 6
	p.TagQuotaProb = 30
	p.GangProb = 15
	p.Epilogue = false
	return p
}

func limitsProfile() *harness.Profile {
	p := mixedProfile()
	p.Name = "limits"
	p.Conf = harness.ConfOpts{MaxDepth: 2, Limits: true, Quotas: true, TightQuota: true, FifoOnly: true}
	p.Weights = harness.With(harness.BaseWeights(), map[string]int{harness.OpAddAsk: 20, harness.OpAddApp: 8, harness.OpReload: 0})
	p.NodeLo, p.NodeHi, p.AskLo, p.AskHi = 12, 30, 1, 6
	p.GangProb = 20
	return p
}

// limits + reservations: small nodes, asks that do not fit at once, tight user/group limits; the reserved ask is
// re-tried on other nodes while other applications of the same user consume the quota
func limitsReserveProfile() *harness.Profile {
	p := limitsProfile()
	p.Name = "limits-reserve"
	p.Conf = harness.ConfOpts{MaxDepth: 2, Limits: true, Quotas: true, TightLimits: true, FifoOnly: true}
	// few and small nodes, asks of 40-100 % of a node: most asks have to wait for space and reserve a node; releases free
	// space on other nodes so that reserved asks are placed elsewhere while other applications of the user go on allocating
	p.Weights = harness.With(harness.BaseWeights(), map[string]int{harness.OpAddAsk: 24, harness.OpAddApp: 8, harness.OpRelease: 14, harness.OpUpdNode: 5, harness.OpAddNode: 6, harness.OpReload: 0,
		harness.OpForeign: 1, harness.OpSetPred: 3, harness.OpDecomNode: 0, harness.OpDrainNode: 1, harness.OpUndrainNode: 1})
	p.NodeLo, p.NodeHi, p.AskLo, p.AskHi = 6, 10, 3, 9
	p.OldAskProb, p.GangProb, p.ReqNodeProb = 90, 5, 5
	p.FragAskProb = 35
	p.MinSteps, p.MaxSteps = 25, 90
	p.UserPool = []string{"u1", "u3"} // few users: several applications compete for one user's (and group g1's) quota
	return p
}

func reserveProfile() *harness.Profile {
	p := mixedProfile()
	p.Name = "reserve"
	p.Conf = harness.ConfOpts{MaxDepth: 2, Quotas: true, FifoOnly: true}
	p.Weights = harness.With(harness.BaseWeights(), map[string]int{harness.OpAddAsk: 22, harness.OpReportBound: 3, harness.OpDecomNode: 3, harness.OpDrainNode: 2, harness.OpUndrainNode: 2,
		harness.OpRelease: 8, harness.OpRemoveApp: 2, harness.OpSetPred: 4, harness.OpReload: 0})
	p.NodeLo, p.NodeHi, p.AskLo, p.AskHi = 4, 10, 2, 9
	p.ReqNodeProb, p.OldAskProb, p.GangProb = 30, 85, 10
	p.Epilogue = true
	return p
}

func churnAppsProfile() *harness.Profile {
	p := mixedProfile()
	p.Name = "churn-apps"
	p.Conf = harness.ConfOpts{MaxDepth: 3, MaxApps: true, Quotas: true, Templates: true, FifoOnly: true}
	p.Weights = harness.With(harness.BaseWeights(), map[string]int{harness.OpAddApp: 12, harness.OpRemoveApp: 3, harness.OpAddAsk: 16, harness.OpRelease: 10, harness.OpFireState: 4, harness.OpFirePh: 2,
		harness.OpReload: 1})
	p.NodeLo, p.NodeHi, p.AskLo, p.AskHi = 10, 30, 1, 5
	p.GangProb, p.TagQuotaProb, p.BadQueueProb = 30, 25, 10
	return p
}

func gangProfile() *harness.Profile {
	p := mixedProfile()
	p.Name = "gang"
	p.Conf = harness.ConfOpts{MaxDepth: 2, Quotas: true, FifoOnly: true}
	p.Weights = harness.With(harness.BaseWeights(), map[string]int{harness.OpAddAsk: 24, harness.OpConfirm: 10, harness.OpDropConfirm: 1, harness.OpFirePh: 4, harness.OpDecomNode: 2, harness.OpRelease: 5,
		harness.OpReload: 0, harness.OpForeign: 1})
	p.NodeLo, p.NodeHi, p.AskLo, p.AskHi = 8, 20, 1, 5
	p.GangProb, p.PreemptProb = 85, 20
	return p
}

func TestC01(t *testing.T) {
	runWorld(t, worldCheck{prop: "C01", check: "C01/world", profile: tightNodesProfile, nonTriv: func(w *harness.World) bool {
		return w.Tags["bind-on-used-node"] > 0 || (w.Tags["c01-binding-checked"] > 0 && w.Tags["op-UpdateNode"]+w.Tags["op-DrainNode"]+w.Tags["op-Foreign"] > 0)
	}})
}

func TestC02(t *testing.T) {
	runWorld(t, worldCheck{prop: "C02", check: "C02/world", profile: tightQueuesProfile, nonTriv: func(w *harness.World) bool {
		return w.Tags["c02-decision-with-max"] > 0
	}})
}

func TestC03(t *testing.T) {
	runWorld(t, worldCheck{prop: "C03", check: "C03/world", profile: mixedProfile, nonTriv: func(w *harness.World) bool {
		disturb := w.Tags["decom-with-swap"]+w.Tags["remove-app-with-allocs"]+w.Tags["release-unknown"]+w.Tags["confirm-duplicate"]+w.Shim.DupConfirms+w.Shim.Dropped > 0
		return w.Tags["bind"] >= 5 && disturb
	}})
}

func TestC04(t *testing.T) {
	runWorld(t, worldCheck{prop: "C04", check: "C04/world", profile: gangProfile, nonTriv: func(w *harness.World) bool {
		return w.Shim.CoreReleases > 0 && w.Tags["confirm-duplicate"]+w.Shim.DupConfirms+w.Shim.Dropped+w.Tags["confirm-late"] > 0
	}})
}

func TestC05(t *testing.T) {
	runWorld(t, worldCheck{prop: "C05", check: "C05/world", profile: limitsProfile, nonTriv: func(w *harness.World) bool {
		return w.Tags["c05-decision-under-user-limit"]+w.Tags["c05-decision-under-group-limit"] > 0
	}})
}

func TestC05Reserve(t *testing.T) {
	runWorld(t, worldCheck{prop: "C05", check: "C05/world-reserve", profile: limitsReserveProfile, nonTriv: func(w *harness.World) bool {
		return w.Tags["c05-decision-under-user-limit"]+w.Tags["c05-decision-under-group-limit"] > 0 && w.Tags["bind-reserved-ask"] > 0
	}})
}

// the SI protocol under reservations: asks reserved on full nodes, reported as bound elsewhere by the shim, released, re-tried
func TestC04Reserve(t *testing.T) {
	runWorld(t, worldCheck{prop: "C04", check: "C04/world-reserve", profile: reserveProfile, nonTriv: func(w *harness.World) bool {
		return w.Tags["reservation-made"] > 0 && (w.Tags["report-bound-reserved-ask"] > 0 || w.Tags["release-reserved-ask"] > 0 || w.Tags["bind-reserved-ask"] > 0)
	}})
}

func TestC06(t *testing.T) {
	runWorld(t, worldCheck{prop: "C06", check: "C06/world", profile: func() *harness.Profile {
		p := gangProfile()
		p.Weights = harness.With(p.Weights, map[string]int{harness.OpDecomNode: 3, harness.OpRelease: 8, harness.OpUpdAsk: 2, harness.OpFirePh: 5, harness.OpFireState: 2, harness.OpSetPred: 5})
		p.PreemptProb = 35
		return p
	}, nonTriv: func(w *harness.World) bool {
		core := w.Tags["c06-swap-confirmed"]+w.Tags["c06-timeout-before-real-allocation"]+w.Tags["fire-placeholder-timer"] > 0
		disturb := w.Tags["decom-with-swap"]+w.Tags["release-placeholder-mid-swap"]+w.Tags["cancel-real-ask-mid-swap"]+w.Tags["confirm-duplicate"]+w.Tags["confirm-PREEMPTED_BY_SCHEDULER"]+
			w.Shim.DupConfirms+w.Shim.Dropped+w.Tags["remove-app-with-allocs"] > 0
		return core && disturb
	}})
}

// C13: histories in which requests no protocol following shim would send are mixed into normal traffic
func TestC13(t *testing.T) {
	runWorld(t, worldCheck{prop: "C13", check: "C13/world", also: []string{"C03=>C13", "PANIC=>C13"}, profile: func() *harness.Profile {
		p := mixedProfile()
		p.Name = "hostile"
		p.Opts.Hostile = true
		p.Epilogue = false // the shim model does not know what the core made of a hostile request: no drain to zero
		p.Weights = harness.With(harness.BaseWeights(), map[string]int{harness.OpHostile: 25, harness.OpReload: 0, harness.OpAddAsk: 16, harness.OpDecomNode: 2, harness.OpRemoveApp: 2})
		p.GangProb, p.ReqNodeProb = 40, 10
		return p
	}, nonTriv: func(w *harness.World) bool {
		return w.Tags["c13-hostile-in-busy-world"] > 0
	}})
}

// C19: order of queues, applications, asks and nodes as a function of their keys, on the states real histories produce
func TestC19(t *testing.T) {
	runWorld(t, worldCheck{prop: "C19", check: "C19/world", profile: func() *harness.Profile {
		p := mixedProfile()
		p.Name = "sorting"
		p.Conf = harness.ConfOpts{MaxDepth: 2, Quotas: true, Preemption: true, WideTrees: true}
		p.Weights = harness.With(harness.BaseWeights(), map[string]int{harness.OpAddApp: 10, harness.OpAddAsk: 24, harness.OpReportBound: 6, harness.OpRelease: 6, harness.OpUpdNode: 4,
			harness.OpForeign: 4, harness.OpReload: 2, harness.OpSchedule: 14})
		p.NodeLo, p.NodeHi, p.AskLo, p.AskHi = 10, 40, 1, 6
		p.GangProb, p.ReqNodeProb, p.OldAskProb = 10, 5, 50
		p.Epilogue = false
		p.MinSteps, p.MaxSteps = 15, 70
		return p
	}, nonTriv: func(w *harness.World) bool {
		return w.Tags["c19-queues-3-candidates-distinct-keys"]+w.Tags["c19-apps-3-candidates-distinct-keys"] > 0 && w.Tags["c19-nodes-3-distinct-scores"] > 0
	}})
}

// C16: reloads with mutated configurations while applications run
func TestC16(t *testing.T) {
	runWorld(t, worldCheck{prop: "C16", check: "C16/world", profile: func() *harness.Profile {
		p := mixedProfile()
		p.Name = "reload"
		p.Conf = harness.ConfOpts{MaxDepth: 3, Limits: true, MaxApps: true, Quotas: true, Templates: true, Preemption: true}
		p.Reloads = true
		p.Weights = harness.With(harness.BaseWeights(), map[string]int{harness.OpReload: 14, harness.OpCleanQueues: 5, harness.OpAddApp: 9, harness.OpAddAsk: 16, harness.OpRemoveApp: 3, harness.OpRelease: 6,
			harness.OpSchedule: 22, harness.OpFireState: 2})
		p.NodeLo, p.NodeHi, p.AskLo, p.AskHi = 10, 30, 1, 5
		p.GangProb, p.ReqNodeProb, p.BadQueueProb = 10, 5, 10
		p.Epilogue = false
		p.MinSteps, p.MaxSteps = 15, 70
		return p
	}, prologue: func(t *rapid.T, w *harness.World, p *harness.Profile) {
		initial := w.Conf
		w.ReloadGen = func(t *rapid.T, w *harness.World) string {
			return harness.MarshalConf(harness.MutateConf(t, w.Conf, initial))
		}
	}, nonTriv: func(w *harness.World) bool {
		return w.Tags["c16-reload-with-2-busy-queues"] > 0 && (w.Tags["c16-property-changed"]+w.Tags["c16-non-empty-queue-removed-from-config"] > 0)
	}})
}

// preemption scenarios: small full nodes, guarantees, fences, priorities, old starving asks
func preemptionProfile() *harness.Profile {
	p := mixedProfile()
	p.Name = "preemption"
	p.Conf = harness.ConfOpts{MaxDepth: 2, Quotas: true, Preemption: true, QuotaPreempt: true, FifoOnly: true, WideTrees: true, FewPrioProps: true}
	p.Weights = harness.With(harness.BaseWeights(), map[string]int{harness.OpAddAsk: 22, harness.OpReportBound: 10, harness.OpAddApp: 8, harness.OpSchedule: 30, harness.OpConfirm: 3, harness.OpRelease: 3,
		harness.OpQuotaPre: 8, harness.OpReload: 6, harness.OpUpdNode: 1, harness.OpForeign: 1, harness.OpDecomNode: 1, harness.OpRemoveApp: 1})
	p.NodeLo, p.NodeHi, p.AskLo, p.AskHi = 6, 14, 1, 5
	p.GangProb, p.ReqNodeProb, p.PreemptProb, p.OldAskProb, p.BoundReqNodeProb = 10, 10, 70, 75, 12
	p.Reloads = true
	p.Epilogue = true
	p.MinSteps, p.MaxSteps = 20, 80
	// half of the cases start from the directed scenario (guaranteed shares on two to four competing leaves)
	generic := p.Conf
	p.ConfFn = func(t *rapid.T) *configs.SchedulerConfig {
		if rapid.IntRange(0, 99).Draw(t, "directed-scenario") < directedPct() {
			return harness.PreemptionScenarioConf(t, true)
		}
		return harness.GenConf(t, generic)
	}
	return p
}

func preemptionPrologue(t *rapid.T, w *harness.World, p *harness.Profile) {
	initial := w.Conf
	w.ReloadGen = func(t *rapid.T, w *harness.World) string {
		if rapid.IntRange(0, 9).Draw(t, "reload-quota-squeeze") < 4 {
			usage := map[string]harness.Res{}
			for path, q := range w.Last.Queues {
				usage[path] = q.Allocated
			}
			if c := harness.QuotaSqueeze(t, w.Conf, usage); c != nil {
				return harness.MarshalConf(c)
			}
		}
		return harness.MarshalConf(harness.MutateConf(t, w.Conf, initial))
	}
	// the situation preemption is about: applications in several leaf queues, nodes filled by running allocations
	harness.FillNodes(t, w, p)
}

func TestC07(t *testing.T) {
	runWorld(t, worldCheck{prop: "C07", check: "C07/world", profile: preemptionProfile, prologue: preemptionPrologue, nonTriv: func(w *harness.World) bool {
		return w.Tags["preemption-step"] > 0 && w.Tags["c07-pool-has-ineligible"] > 0
	}})
}

func TestC08(t *testing.T) {
	runWorld(t, worldCheck{prop: "C08", check: "C08/world", profile: preemptionProfile, prologue: preemptionPrologue, nonTriv: func(w *harness.World) bool {
		return w.Tags["c08-preemption-with-2-guaranteed-queues"]+w.Tags["c08-quota-preemption"] > 0
	}})
}

func TestC09(t *testing.T) {
	runWorld(t, worldCheck{prop: "C09", check: "C09/world", profile: reserveProfile, nonTriv: func(w *harness.World) bool {
		removedOther := 0
		for k, v := range w.Tags {
			if len(k) > 23 && k[:23] == "reservation-removed-by-" && k != "reservation-removed-by-cycle" {
				removedOther += v
			}
		}
		return w.Tags["reservation-made"] > 0 && removedOther > 0
	}})
}

// TestC09Preempt: the reservation oracles over the directed preemption scenario (queue preemption reserves the node of its
// victims for the asking ask, which may already hold a reservation elsewhere: the reservation moves).
func TestC09Preempt(t *testing.T) {
	runWorld(t, worldCheck{prop: "C09", check: "C09/preempt", profile: preemptionProfile, prologue: preemptionPrologue, nonTriv: func(w *harness.World) bool {
		return w.Tags["reservation-made"] > 0 && w.Tags["preemption-queue"] > 0
	}})
}

func TestC10(t *testing.T) {
	runWorld(t, worldCheck{prop: "C10", check: "C10/world", profile: churnAppsProfile, nonTriv: func(w *harness.World) bool {
		return w.Tags["app-4-states"] > 0
	}})
}

// life cycle of gang applications: swaps in flight while the other allocations of the application come and go
func TestC10Gang(t *testing.T) {
	runWorld(t, worldCheck{prop: "C10", check: "C10/world-gang", profile: func() *harness.Profile {
		p := gangProfile()
		p.Weights = harness.With(p.Weights, map[string]int{harness.OpRelease: 12, harness.OpFireState: 4, harness.OpRemoveApp: 2})
		return p
	}, nonTriv: func(w *harness.World) bool {
		return w.Tags["app-4-states"] > 0 && w.Tags["confirm-PLACEHOLDER_REPLACED"] > 0
	}})
}

func TestC11(t *testing.T) {
	runWorld(t, worldCheck{prop: "C11", check: "C11/world", profile: churnAppsProfile, nonTriv: func(w *harness.World) bool {
		return w.Tags["c11-gate-on-ancestor"] > 0 || w.Tags["c11-gate-evaluated"] > 1
	}})
}

func directedPct() int {
	if v := os.Getenv("VERIF_DIRECTED_PCT"); v != "" {
		n, _ := strconv.Atoi(v)
		return n
	}
	return 50
}
