package props

// C12 — restart recovery rebuilds the same accounting.
//
// A generated history runs on a first core (W1) and is cut at an op boundary. The core is thrown away. A second core (W2)
// is started with the latest accepted configuration and is fed what the shim model knows (never core internals): nodes,
// live applications with the force-create tag, bound allocations including placeholders and foreign pods, outstanding
// asks, in a generated order that respects only the real dependencies. Oracle: nothing is rejected; W2's per node, per
// application, per user and root totals equal the totals computed from the shim model, and equal W1's last snapshot when
// W1 was quiescent; the capacity, quota and accounting oracles (C01, C02, C03) hold while a generated continuation runs.

import (
	"encoding/json"
	"os"
	"strings"
	"testing"
	"time"

	"pgregory.net/rapid"

	"verif/harness"
)

type c12Case struct {
	Conf    string            `json:"conf"`
	Opts    harness.WorldOpts `json:"opts"`
	Ops1    []harness.Op      `json:"ops1"`
	Shuffle uint64            `json:"shuffle"`
	Ops2    []harness.Op      `json:"ops2"`
	// CoreResolves: the shim replays the applications with the user name only and the restarted core runs a group resolver
	// that does not know the user (forced fallback of ConvertUGI): the application must stay with its user.
	CoreResolves bool `json:"core_resolves,omitempty"`
}

func shuffleOps(ops []harness.Op, seed uint64) []harness.Op {
	out := append([]harness.Op{}, ops...)
	x := seed | 1
	for i := len(out) - 1; i > 0; i-- {
		x = x*6364136223846793005 + 1442695040888963407
		j := int((x >> 33) % uint64(i+1))
		out[i], out[j] = out[j], out[i]
	}
	return out
}

type c12Result struct {
	msg          string
	lines        []string
	tags         map[string]int
	nontrivial   bool
	w2           *harness.World
	inconclusive bool
}

// restartAndCheck closes nothing: w1 must already be closed. It builds W2 from the shim model and compares.
func restartAndCheck(confY string, opts harness.WorldOpts, shim1 *harness.Shim, last1 *harness.Snapshot, shuffle uint64, coreResolves bool, cont func(w2 *harness.World)) c12Result {
	r := c12Result{tags: map[string]int{}}
	first, second := harness.RecoveryItems(shim1)
	if coreResolves {
		if y, ok := harness.WithResolver(confY, "test"); ok {
			confY = y
			for i := range first {
				if first[i].Kind == harness.OpAddApp {
					first[i].Groups = nil
				}
			}
			r.tags["c12-core-resolves-groups"]++
		}
	}
	first, second = shuffleOps(first, shuffle), shuffleOps(second, shuffle^0x9e3779b97f4a7c15)
	totals := harness.TotalsOf(shim1, first, second)
	w2, why := harness.OpenWorld(confY, opts, "C12", "C01=>C12", "C02=>C12", "C03=>C12", "PANIC=>C12")
	if w2 == nil {
		r.msg = "the new core does not start with the latest accepted configuration: " + why
		return r
	}
	defer w2.Close()
	r.w2 = w2
	w2.Shim.SetSeq(shim1.SeqOf())
	bound, asks, phs, foreign := 0, 0, 0, 0
	for _, op := range append(append([]harness.Op{}, first...), second...) {
		switch op.Kind {
		case harness.OpReportBound:
			bound++
			if op.Placeholder {
				phs++
			}
		case harness.OpAddAsk:
			asks++
		case harness.OpForeign:
			foreign++
		}
		res := w2.Step(op)
		if w2.Inconclusive != "" {
			r.inconclusive = true
			return r
		}
		if rej := harness.Rejections(res); len(rej) > 0 {
			w2.Vio("C12", "the new core rejected a replayed item (%s): %s", op, strings.Join(rej, "; "))
		}
		if len(w2.Vios) > 0 || w2.Dead {
			break
		}
	}
	if len(w2.Vios) == 0 && !w2.Dead {
		for _, d := range harness.CheckRecovered(w2, totals) {
			w2.Vio("C12", "after the replay: %s", d)
		}
	}
	quiescent := len(shim1.Pending) == 0
	for _, a := range last1.Apps {
		for _, al := range a.Allocs {
			if al.ReleaseKey != "" || al.Released || al.Preempted {
				quiescent = false
			}
		}
	}
	if quiescent && len(w2.Vios) == 0 && !w2.Dead {
		r.tags["c12-quiescent-cut"]++
		s2 := w2.Last
		for id, n2 := range s2.Nodes {
			if n1 := last1.Nodes[id]; n1 != nil && (!n1.Allocated.Eq(n2.Allocated) || !n1.Occupied.Eq(n2.Occupied)) {
				w2.Vio("C12", "node %s: the old core had allocated %s occupied %s, the new core has %s / %s", id, n1.Allocated, n1.Occupied, n2.Allocated, n2.Occupied)
			}
		}
		for id, a2 := range s2.Apps {
			if a1 := last1.Apps[id]; a1 != nil && (!a1.Allocated.Eq(a2.Allocated) || !a1.Placeholder.Eq(a2.Placeholder) || !a1.Pending.Eq(a2.Pending)) {
				w2.Vio("C12", "application %s: the old core had allocated %s placeholder %s pending %s, the new core has %s / %s / %s", id, a1.Allocated, a1.Placeholder, a1.Pending, a2.Allocated, a2.Placeholder, a2.Pending)
			}
		}
		for path, q2 := range s2.Queues {
			q1 := last1.Queues[path]
			if q1 == nil || strings.Join(q1.Apps, ",") != strings.Join(q2.Apps, ",") || !q1.Leaf || len(q1.Children) > 0 || len(q2.Children) > 0 {
				continue // (a queue turned into a leaf by a reload can still have child queues with applications)
			}
			if !q1.Allocated.Eq(q2.Allocated) || !q1.Pending.Eq(q2.Pending) {
				w2.Vio("C12", "queue %s holds the same applications in both cores: the old core had allocated %s pending %s, the new core has %s / %s", path, q1.Allocated, q1.Pending, q2.Allocated, q2.Pending)
			}
		}
		for u, t2 := range s2.Users {
			if t1 := last1.Users[u]; t1 != nil && !t1.Usage["root"].Eq(t2.Usage["root"]) {
				w2.Vio("C12", "user %s: the old core tracked %s, the new core tracks %s", u, t1.Usage["root"], t2.Usage["root"])
			}
		}
	}
	if bound >= 3 && asks >= 1 && (phs > 0 || foreign > 0) {
		r.nontrivial = true
	}
	for id, a := range w2.Last.Apps {
		if strings.Contains(a.Queue, "@recovery@") {
			r.tags["c12-recovery-queue-used"]++
			r.nontrivial = r.nontrivial || bound >= 3
			_ = id
		}
	}
	r.tags["c12-replayed-bound"] += bound
	r.tags["c12-replayed-asks"] += asks
	r.tags["c12-replayed-placeholders"] += phs
	r.tags["c12-replayed-foreign"] += foreign
	if cont != nil && len(w2.Vios) == 0 && !w2.Dead {
		cont(w2)
	}
	for _, v := range w2.Vios {
		if v.Prop == "C12" {
			r.msg = v.Msg
			break
		}
	}
	r.lines = w2.Lines
	for k, v := range w2.Tags {
		r.tags[k] += v
	}
	if w2.Inconclusive != "" {
		r.inconclusive = true
	}
	return r
}

func c12Profile() *harness.Profile {
	p := mixedProfile()
	p.Name = "restart"
	p.Conf = harness.ConfOpts{MaxDepth: 2, Limits: true, MaxApps: true, Quotas: true, Templates: true, FifoOnly: true, TightQuota: true}
	p.Weights = harness.With(harness.BaseWeights(), map[string]int{harness.OpAddAsk: 18, harness.OpForeign: 4, harness.OpReportBound: 3, harness.OpReload: 2, harness.OpSchedule: 30, harness.OpAddApp: 7})
	p.GangProb, p.ReqNodeProb = 35, 8
	p.Reloads = true
	p.Epilogue = false
	p.MinSteps, p.MaxSteps = 10, 50
	return p
}

func TestC12(t *testing.T) {
	st := harness.NewStats("C12")
	defer st.Write()
	defer func() {
		if f := harness.TakeFailure("C12/restart"); f != nil {
			c12Minimize(f)
			harness.RecordFailure(f)
			harness.FlushFailure("C12/restart")
		}
	}()
	rapid.Check(t, func(t *rapid.T) {
		p := c12Profile()
		conf := harness.GenConf(t, p.Conf)
		w1, why := harness.NewWorld(conf, p.Opts, "none")
		if w1 == nil {
			st.Label("generator-unsound-config", 1)
			t.Skipf("generated configuration rejected: %s", why)
		}
		closed := false
		defer func() {
			if !closed {
				w1.Close()
			}
		}()
		initial := w1.Conf
		w1.ReloadGen = func(t *rapid.T, w *harness.World) string {
			return harness.MarshalConf(harness.MutateConf(t, w.Conf, initial))
		}
		harness.Warmup(t, w1, p)
		steps := rapid.IntRange(p.MinSteps, p.MaxSteps).Draw(t, "steps")
		for i := 0; i < steps && !w1.Dead; i++ {
			w1.Step(harness.GenOp(t, w1, p))
		}
		if w1.Dead || w1.Inconclusive != "" {
			st.Label("first-core-died", 1)
			t.Skip("the first core did not survive the history (reported by other checks)")
		}
		shuffle := rapid.Uint64().Draw(t, "replay-order")
		nCont := rapid.IntRange(8, 20).Draw(t, "continuation")
		coreResolves := rapid.IntRange(0, 3).Draw(t, "core-resolves-groups") == 0
		c := c12Case{Conf: w1.InitialConf, Opts: w1.Opts, Ops1: append([]harness.Op{}, w1.Trace...), Shuffle: shuffle, CoreResolves: coreResolves}
		shim1, last1, confY, opts := w1.Shim, w1.Last, w1.ConfY, w1.Opts
		w1.Close()
		closed = true
		res := restartAndCheck(confY, opts, shim1, last1, shuffle, coreResolves, func(w2 *harness.World) {
			for i := 0; i < nCont && !w2.Dead && len(w2.Vios) == 0; i++ {
				op := harness.GenOp(t, w2, p)
				c.Ops2 = append(c.Ops2, op)
				w2.Step(op)
			}
		})
		if res.inconclusive {
			st.Label("inconclusive-settle", 1)
			t.Skip("world did not settle")
		}
		raw, _ := json.Marshal(c)
		var labels []string
		for k := range res.tags {
			labels = append(labels, k)
		}
		var sample interface{}
		if res.nontrivial {
			sample = map[string]interface{}{"first_core_ops": len(c.Ops1), "replayed": res.tags, "second_core_trace": truncate(res.lines, 50)}
		}
		st.Case(harness.Fingerprint(string(raw)), res.nontrivial, labels, sample)
		st.AddSteps(len(c.Ops1)+len(res.lines), 0)
		if res.msg != "" {
			harness.RecordFailure(&harness.Failure{Property: "C12", Check: "C12/restart", Message: res.msg, Size: len(c.Ops1)*100000 + len(raw), Case: raw, Trace: res.lines})
			t.Fatalf("%s\n%s", res.msg, strings.Join(res.lines, "\n"))
		}
	})
}

// runC12Case re-executes a recorded case: first core, restart, replay, continuation.
func runC12Case(c c12Case) c12Result {
	w1, why := harness.OpenWorld(c.Conf, c.Opts, "none")
	if w1 == nil {
		return c12Result{msg: "", lines: []string{"first core could not start: " + why}}
	}
	for _, op := range c.Ops1 {
		if w1.Dead {
			break
		}
		if !w1.Legal(op) {
			w1.Close()
			return c12Result{lines: []string{"illegal op in the first history: " + op.String()}, inconclusive: true}
		}
		w1.Step(op)
	}
	shim1, last1, confY := w1.Shim, w1.Last, w1.ConfY
	dead := w1.Dead
	w1.Close()
	if dead {
		return c12Result{inconclusive: true}
	}
	return restartAndCheck(confY, c.Opts, shim1, last1, c.Shuffle, c.CoreResolves, func(w2 *harness.World) {
		for _, op := range c.Ops2 {
			if w2.Dead || len(w2.Vios) > 0 {
				return
			}
			if w2.Legal(op) {
				w2.Step(op)
			}
		}
	})
}

// minimizeC12 removes ops of the first history (and the continuation) while the failure keeps its shape.
func minimizeC12(c c12Case, msg string, budget time.Duration) (c12Case, c12Result) {
	sig := harness.Signature(msg)
	deadline := time.Now().Add(budget)
	var best c12Result
	fails := func(cand c12Case) bool {
		for i := 0; i < 3; i++ {
			r := runC12Case(cand)
			if r.msg != "" && harness.Signature(r.msg) == sig {
				best = r
				return true
			}
		}
		return false
	}
	if !fails(c) {
		return c, best
	}
	for _, which := range []int{2, 1} {
		get := func() []harness.Op {
			if which == 1 {
				return c.Ops1
			}
			return c.Ops2
		}
		for chunk := len(get()) / 2; chunk >= 1; chunk /= 2 {
			for i := 0; i+chunk <= len(get()) && time.Now().Before(deadline); {
				ops := get()
				cut := append(append([]harness.Op{}, ops[:i]...), ops[i+chunk:]...)
				cand := c
				if which == 1 {
					cand.Ops1 = cut
				} else {
					cand.Ops2 = cut
				}
				if fails(cand) {
					c = cand
				} else {
					i++
				}
			}
		}
	}
	fails(c)
	return c, best
}

func c12Minimize(f *harness.Failure) {
	var c c12Case
	if err := json.Unmarshal(f.Case, &c); err != nil {
		return
	}
	mc, best := minimizeC12(c, f.Message, 60*time.Second)
	if best.msg != "" {
		f.Case, _ = json.Marshal(mc)
		f.Message = best.msg
		f.Trace = append([]string{"-- first core: " + opsSummary(mc.Ops1) + " --"}, best.lines...)
		f.Size = len(mc.Ops1) + len(mc.Ops2)
	}
}

func opsSummary(ops []harness.Op) string {
	var parts []string
	for _, o := range ops {
		parts = append(parts, o.String())
	}
	return strings.Join(parts, " | ")
}

func TestC12Replay(t *testing.T) {
	path := os.Getenv("VERIF_REPLAY")
	if path == "" {
		t.Skip("no replay file")
	}
	f := loadFailure(t, path)
	if f.Check != "C12/restart" {
		t.Skipf("not a C12 replay: %s", f.Check)
	}
	var c c12Case
	mustUnmarshal(t, f.Case, &c)
	r := runC12Case(c)
	if r.msg != "" {
		t.Fatalf("REPLAY-FAIL %s: %s\n%s", f.Check, r.msg, strings.Join(r.lines, "\n"))
	}
	t.Logf("replay passed\n%s", strings.Join(r.lines, "\n"))
}
