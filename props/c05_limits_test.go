package props

// C05 (b) — "after any sequence of configuration updates the limits in force are exactly those of the latest
// configuration", checked directly on the user group manager: generated sequences of UpdateConfig interleaved with
// the calls the scheduler makes (Headroom, CanRunApp, IncreaseTrackedResource, DecreaseTrackedResource). After every
// op the limits every tracker reports (REST DAO) and the head room / admission answers are compared with a reference
// model that knows only the latest configuration and the usage.

import (
	"encoding/json"
	"fmt"
	"os"
	"sort"
	"strings"
	"testing"
	"time"

	"pgregory.net/rapid"

	"github.com/apache/yunikorn-core/pkg/common/configs"
	"github.com/apache/yunikorn-core/pkg/common/security"
	"github.com/apache/yunikorn-core/pkg/scheduler/ugm"

	"verif/harness"
)

type ugmOp struct {
	Kind string      `json:"kind"` // config, headroom, canrun, inc, dec
	Conf string      `json:"conf,omitempty"`
	App  string      `json:"app,omitempty"`
	User string      `json:"user,omitempty"`
	Q    string      `json:"queue,omitempty"`
	Res  harness.Res `json:"res,omitempty"`
	All  bool        `json:"all,omitempty"` // dec: release everything and remove the application
}

type ugmCase struct {
	Ops []ugmOp `json:"ops"`
}

type ugmApp struct {
	user, queue string
	usage       harness.Res
	tracked     bool // has usage booked (counts as running)
}

func userGroup(u string) security.UserGroup {
	return security.UserGroup{User: u, Groups: harness.UserGroups[u]}
}

// refHeadroom: min over the path of (limit - usage) for the types the limit defines; nil when no limit applies.
func refHeadroom(limitAt func(p string) (harness.Res, bool), usageAt func(p string) harness.Res, queue string) harness.Res {
	var out harness.Res
	for _, p := range harness.PathPrefixes(queue) {
		l, ok := limitAt(p)
		if !ok || len(l) == 0 || l.IsZero() {
			continue
		}
		h := harness.Res{}
		u := usageAt(p)
		for k, v := range l {
			h[k] = v - u[k]
		}
		if out == nil {
			out = h
			continue
		}
		for k, v := range h {
			if cur, ok := out[k]; !ok || v < cur {
				out[k] = v
			}
		}
	}
	return out
}

func runUgm(c ugmCase) (msg string, labels []string, nontrivial bool) {
	m := ugm.GetUserManager()
	m.ClearUserTrackers()
	m.ClearGroupTrackers()
	m.ClearConfigLimits()
	defer func() {
		m.ClearUserTrackers()
		m.ClearGroupTrackers()
		m.ClearConfigLimits()
	}()
	lab := map[string]bool{}
	var lim *harness.LimitRef
	apps := map[string]*ugmApp{}
	reloads, changedWithUsage := 0, false
	groupTaint, appTaint := map[string]bool{}, map[string]bool{}
	usage := func(u, p string) harness.Res {
		out := harness.Res{}
		for _, a := range apps {
			if a.user == u && (a.queue == p || strings.HasPrefix(a.queue, p+".")) {
				out.AddIn(a.usage)
			}
		}
		return out
	}
	running := func(u, p string) []string {
		var out []string
		for id, a := range apps {
			if a.tracked && a.user == u && (a.queue == p || strings.HasPrefix(a.queue, p+".")) {
				out = append(out, id)
			}
		}
		sort.Strings(out)
		return out
	}
	for i, op := range c.Ops {
		where := fmt.Sprintf("op %d %s", i, op.Kind)
		switch op.Kind {
		case "config":
			conf, err := configs.LoadSchedulerConfigFromByteArray([]byte(op.Conf))
			if err != nil {
				return "", keys(lab), false // generator produced an invalid configuration: not a case
			}
			newLim := harness.LimitsOf(conf)
			if lim != nil && len(apps) > 0 {
				for _, a := range apps {
					if !a.tracked {
						continue
					}
					for _, p := range harness.PathPrefixes(a.queue) {
						o1, ok1 := limUserRes(lim, p, a.user)
						n1, ok2 := limUserRes(newLim, p, a.user)
						if ok1 != ok2 || !o1.Eq(n1) {
							changedWithUsage = true
						}
					}
				}
			}
			before := &harness.Snapshot{}
			harness.SnapTrackers(before)
			if err := m.UpdateConfig(conf.Partitions[0].Queues[0], "root"); err != nil {
				return fmt.Sprintf("%s: accepted configuration refused by the user group manager: %v", where, err), keys(lab), nontrivial
			}
			if lim != nil && harness.Excluded(harness.GroupUsageLostShape) {
				// listed known finding: the tracked usage of a group that lost a limit is not compared from here on
				for _, g := range harness.DroppedGroupLimits(lim, newLim) {
					groupTaint[g] = true
					for _, ut := range before.Users {
						for app, ag := range ut.AppGroups {
							if ag == g {
								appTaint[app] = true
							}
						}
					}
				}
			}
			lim = newLim
			reloads++
			if reloads >= 2 && changedWithUsage {
				nontrivial = true
				lab["reload-changes-limit-of-user-with-usage"] = true
			}
		case "headroom", "canrun", "inc":
			if lim == nil {
				continue
			}
			a := apps[op.App]
			if a == nil {
				a = &ugmApp{user: op.User, queue: op.Q, usage: harness.Res{}}
				apps[op.App] = a
			}
			ug := userGroup(a.user)
			switch op.Kind {
			case "headroom":
				got := harness.FromCore(m.Headroom(a.queue, op.App, ug))
				gotNil := m.Headroom(a.queue, op.App, ug) == nil
				want := refHeadroom(func(p string) (harness.Res, bool) { return limUserRes(lim, p, a.user) }, func(p string) harness.Res { return usage(a.user, p) }, a.queue)
				// group part: the group the manager resolved for this application, limits of the latest configuration
				snap := &harness.Snapshot{}
				harness.SnapTrackers(snap)
				if ut := snap.Users[a.user]; ut != nil {
					if g := ut.AppGroups[op.App]; g != "" {
						gt := snap.Groups[g]
						gw := refHeadroom(func(p string) (harness.Res, bool) { r, ok := lim.GroupRes[p][g]; return r, ok }, func(p string) harness.Res {
							if gt == nil {
								return harness.Res{}
							}
							return gt.Usage[p]
						}, a.queue)
						if gw != nil {
							lab["headroom-with-group-limit"] = true
							if want == nil {
								want = gw
							} else {
								for k, v := range gw {
									if cur, ok := want[k]; !ok || v < cur {
										want[k] = v
									}
								}
							}
						}
					}
				}
				if want == nil {
					if !gotNil {
						return fmt.Sprintf("%s: head room of user %s in %s is %s although the latest configuration sets no limit for the user on that path", where, a.user, a.queue, got), keys(lab), nontrivial
					}
				} else {
					lab["headroom-with-limit"] = true
					if gotNil || !sameDefined(got, want) {
						g := got.String()
						if gotNil {
							g = "unlimited"
						}
						return fmt.Sprintf("%s: head room of user %s (application %s) in %s is %s, the latest configuration and the tracked usage give %s", where, a.user, op.App, a.queue, g, want), keys(lab), nontrivial
					}
				}
			case "canrun":
				got := m.CanRunApp(a.queue, op.App, ug)
				want := true
				for _, p := range harness.PathPrefixes(a.queue) {
					if mx, ok := limUserApps(lim, p, a.user); ok && mx > 0 {
						r := running(a.user, p)
						if !contains(r, op.App) && uint64(len(r)+1) > mx {
							want = false
						}
					}
				}
				// the group part can only forbid more: an answer "yes" must at least be allowed by the user limits
				if got && !want {
					return fmt.Sprintf("%s: application %s of user %s in %s may run although the user's maximum applications of the latest configuration is reached", where, op.App, a.user, a.queue), keys(lab), nontrivial
				}
				if !got && want {
					// refused: must be explained by a group limit of the latest configuration
					snap := &harness.Snapshot{}
					harness.SnapTrackers(snap)
					explained := false
					if ut := snap.Users[a.user]; ut != nil {
						if g := ut.AppGroups[op.App]; g != "" {
							for _, p := range harness.PathPrefixes(a.queue) {
								if mx, ok := lim.GroupApps[p][g]; ok && mx > 0 {
									if gt := snap.Groups[g]; gt != nil && !contains(gt.Apps[p], op.App) && uint64(len(gt.Apps[p])+1) > mx {
										explained = true
									}
								}
							}
						}
					}
					if !explained {
						return fmt.Sprintf("%s: application %s of user %s in %s refused although no maximum applications limit of the latest configuration is reached", where, op.App, a.user, a.queue), keys(lab), nontrivial
					}
					lab["canrun-refused-by-group"] = true
				}
				if !want {
					lab["canrun-refused-by-user-limit"] = true
				}
			case "inc":
				// the scheduler always asks for the head room first
				m.Headroom(a.queue, op.App, ug)
				m.IncreaseTrackedResource(a.queue, op.App, op.Res.Core(), ug)
				a.usage.AddIn(op.Res)
				a.tracked = true
			}
		case "dec":
			a := apps[op.App]
			if a == nil || !a.tracked {
				continue
			}
			r := op.Res
			remove := op.All
			if remove || !r.LEq(a.usage) {
				r, remove = a.usage.Clone(), true
			}
			if r.Eq(a.usage) {
				remove = true
			}
			m.DecreaseTrackedResource(a.queue, op.App, r.Core(), userGroup(a.user), remove)
			a.usage = a.usage.Sub(r).Pruned()
			if remove {
				delete(apps, op.App)
			}
		}
		if lim == nil {
			continue
		}
		// every tracker reports, on every queue it tracks, the limit of the latest configuration and the usage booked
		snap := &harness.Snapshot{}
		harness.SnapTrackers(snap)
		for _, u := range harness.SortedKeys(snap.Users) {
			t := snap.Users[u]
			for _, p := range harness.SortedKeys(t.Usage) {
				wantRes, _ := limUserRes(lim, p, u)
				wantApps, _ := limUserApps(lim, p, u)
				if got := t.MaxRes[p]; !got.Eq(wantRes) || (len(got) == 0) != (len(wantRes) == 0 || wantRes.IsZero()) {
					return fmt.Sprintf("%s: user %s reports maximum resources %s in %s, the latest configuration says %s", where, u, got, p, wantRes), keys(lab), nontrivial
				}
				if got := t.MaxApps[p]; got != wantApps {
					return fmt.Sprintf("%s: user %s reports maximum applications %d in %s, the latest configuration says %d", where, u, got, p, wantApps), keys(lab), nontrivial
				}
				if got, want := t.Usage[p], usage(u, p); !got.Eq(want) {
					return fmt.Sprintf("%s: user %s tracked usage in %s is %s, booked usage of its applications is %s", where, u, p, got, want), keys(lab), nontrivial
				}
			}
		}
		for _, ut := range snap.Users {
			for app, ag := range ut.AppGroups {
				if ag != "" && appTaint[app] {
					groupTaint[ag] = true
				}
			}
		}
		for _, g := range harness.SortedKeys(snap.Groups) {
			t := snap.Groups[g]
			for _, p := range harness.SortedKeys(t.Usage) {
				wantRes := lim.GroupRes[p][g]
				wantApps := lim.GroupApps[p][g]
				if got := t.MaxRes[p]; !got.Eq(wantRes) {
					return fmt.Sprintf("%s: group %s reports maximum resources %s in %s, the latest configuration says %s", where, g, got, p, wantRes), keys(lab), nontrivial
				}
				if got := t.MaxApps[p]; got != wantApps {
					return fmt.Sprintf("%s: group %s reports maximum applications %d in %s, the latest configuration says %d", where, g, got, p, wantApps), keys(lab), nontrivial
				}
				// tracked usage of the group: the booked usage of the applications the manager links to the group
				want := harness.Res{}
				for id, a := range apps {
					if ut := snap.Users[a.user]; ut != nil && ut.AppGroups[id] == g && (a.queue == p || strings.HasPrefix(a.queue, p+".")) {
						want.AddIn(a.usage)
					}
				}
				if groupTaint[g] {
					lab["group-usage-skipped-known-finding"] = true
					continue
				}
				if got := t.Usage[p]; !got.Eq(want) {
					return fmt.Sprintf("%s: group %s tracked usage in %s is %s, booked usage of the applications linked to the group is %s", where, g, p, got, want), keys(lab), nontrivial
				}
				if !want.IsZero() {
					lab["group-usage-compared"] = true
				}
			}
		}
	}
	return "", keys(lab), nontrivial
}

func sameDefined(a, b harness.Res) bool {
	if len(a) != len(b) {
		return false
	}
	for k, v := range a {
		if w, ok := b[k]; !ok || w != v {
			return false
		}
	}
	return true
}

func limUserRes(l *harness.LimitRef, p, u string) (harness.Res, bool) { return l.UserResFor(p, u) }
func limUserApps(l *harness.LimitRef, p, u string) (uint64, bool)     { return l.UserAppsFor(p, u) }
func contains(l []string, s string) bool {
	for _, x := range l {
		if x == s {
			return true
		}
	}
	return false
}

var excludedShapes = map[string]int{}

// knownReloadShape names the listed known finding whose trigger the reload old -> new contains ("" if none).
func knownReloadShape(oldC, newC *configs.SchedulerConfig) string {
	o, n := harness.LimitsOf(oldC), harness.LimitsOf(newC)
	named := func(l *harness.LimitRef, p string) map[string]bool {
		out := map[string]bool{}
		for u := range l.UserRes[p] {
			if u != "*" {
				out[u] = true
			}
		}
		for u := range l.UserApps[p] {
			if u != "*" {
				out[u] = true
			}
		}
		return out
	}
	hasWild := func(l *harness.LimitRef, p string) bool {
		_, a := l.UserRes[p]["*"]
		_, b := l.UserApps[p]["*"]
		return a || b
	}
	paths := map[string]bool{}
	for _, m := range []map[string]map[string]harness.Res{o.UserRes, n.UserRes, o.GroupRes, n.GroupRes} {
		for p := range m {
			paths[p] = true
		}
	}
	for _, m := range []map[string]map[string]uint64{o.UserApps, n.UserApps, o.GroupApps, n.GroupApps} {
		for p := range m {
			paths[p] = true
		}
	}
	for p := range paths {
		// F1: the user wildcard of a queue is dropped while the queue has named user limits before and after
		if hasWild(o, p) && !hasWild(n, p) && len(named(o, p)) > 0 && len(named(n, p)) > 0 {
			return "ugm-stale-wildcard-after-drop"
		}
	}
	for p := range paths {
		// F2: a named user (group) limit is dropped from a queue while the new configuration sets a limit for the same
		// user (group) on a queue below it
		for u := range named(o, p) {
			if named(n, p)[u] {
				continue
			}
			for p2 := range paths {
				if strings.HasPrefix(p2, p+".") && named(n, p2)[u] {
					return "ugm-limit-lost-below-dropped-limit"
				}
			}
		}
		groupsAt := func(l *harness.LimitRef, p string) map[string]bool {
			out := map[string]bool{}
			for g := range l.GroupRes[p] {
				out[g] = true
			}
			for g := range l.GroupApps[p] {
				out[g] = true
			}
			return out
		}
		for g := range groupsAt(o, p) {
			if groupsAt(n, p)[g] {
				continue
			}
			for p2 := range paths {
				if strings.HasPrefix(p2, p+".") && groupsAt(n, p2)[g] {
					return "ugm-limit-lost-below-dropped-limit"
				}
			}
		}
	}
	return ""
}

func genUgmCase(t *rapid.T) ugmCase {
	var c ugmCase
	opts := harness.ConfOpts{MaxDepth: 2, Limits: true, Quotas: true}
	conf := harness.GenConf(t, opts)
	c.Ops = append(c.Ops, ugmOp{Kind: "config", Conf: harness.MarshalConf(conf)})
	leaves, _ := harness.LeafPaths(conf)
	type app struct{ id, user, q string }
	var apps []app
	n := rapid.IntRange(3, 30).Draw(t, "ops")
	seq := 0
	for i := 0; i < n; i++ {
		k := rapid.IntRange(0, 11).Draw(t, "kind")
		switch {
		case k <= 1:
			var nc *configs.SchedulerConfig
			switch {
			case os.Getenv("VERIF_UGM_KINDS") != "":
				var kinds []int
				for _, ch := range os.Getenv("VERIF_UGM_KINDS") {
					kinds = append(kinds, int(ch-'0'))
				}
				nc = harness.MutateLimitsKinds(t, conf, kinds)
			case rapid.Bool().Draw(t, "mutate"):
				nc = harness.MutateLimits(t, conf)
			default:
				nc = harness.GenConf(t, opts)
			}
			if shape := knownReloadShape(conf, nc); shape != "" && harness.Excluded(shape) {
				// listed known finding: keep the shape out of the sequence by construction, count it
				excludedShapes[shape]++
				nc = conf
			}
			conf = nc
			if l, _ := harness.LeafPaths(conf); len(l) > 0 {
				leaves = l
			}
			c.Ops = append(c.Ops, ugmOp{Kind: "config", Conf: harness.MarshalConf(conf)})
		case k <= 3 || len(apps) == 0:
			seq++
			a := app{id: fmt.Sprintf("app-%d", seq), user: rapid.SampledFrom(harness.Users).Draw(t, "user"), q: rapid.SampledFrom(leaves).Draw(t, "queue")}
			apps = append(apps, a)
			kind := rapid.SampledFrom([]string{"inc", "inc", "headroom", "canrun"}).Draw(t, "first")
			op := ugmOp{Kind: kind, App: a.id, User: a.user, Q: a.q}
			if kind == "inc" {
				op.Res = harness.Res{"memory": rapid.Int64Range(1, 8).Draw(t, "mem"), "vcore": rapid.Int64Range(0, 6).Draw(t, "cpu")}.Pruned()
			}
			c.Ops = append(c.Ops, op)
		default:
			a := apps[rapid.IntRange(0, len(apps)-1).Draw(t, "app")]
			kind := rapid.SampledFrom([]string{"inc", "dec", "dec", "headroom", "headroom", "canrun"}).Draw(t, "next")
			op := ugmOp{Kind: kind, App: a.id, User: a.user, Q: a.q}
			switch kind {
			case "inc":
				op.Res = harness.Res{"memory": rapid.Int64Range(1, 8).Draw(t, "mem"), "vcore": rapid.Int64Range(0, 6).Draw(t, "cpu")}.Pruned()
			case "dec":
				op.All = rapid.Bool().Draw(t, "all")
				op.Res = harness.Res{"memory": rapid.Int64Range(1, 4).Draw(t, "mem")}
			}
			c.Ops = append(c.Ops, op)
		}
	}
	return c
}

func TestC05Limits(t *testing.T) {
	st := harness.NewStats("C05")
	defer st.Write()
	defer flushUgmFailure()
	rapid.Check(t, func(t *rapid.T) {
		c := genUgmCase(t)
		raw, _ := json.Marshal(c)
		msg, labels, nt := runUgm(c)
		var sample interface{}
		if nt {
			sample = summarizeUgm(c)
		}
		st.Case(harness.Fingerprint("ugm"+string(raw)), nt, labels, sample)
		for k, n := range excludedShapes {
			for ; n > 0; n-- {
				st.Exclude(k)
			}
			delete(excludedShapes, k)
		}
		if msg != "" {
			harness.RecordFailure(&harness.Failure{Property: "C05", Check: "C05/limits", Message: msg, Size: len(raw), Case: raw, Trace: summarizeUgm(c)})
			t.Fatalf("%s", msg)
		}
	})
}

func summarizeUgm(c ugmCase) []string {
	var out []string
	for i, op := range c.Ops {
		switch op.Kind {
		case "config":
			out = append(out, fmt.Sprintf("%2d config", i))
			conf, err := configs.LoadSchedulerConfigFromByteArray([]byte(op.Conf))
			if err != nil {
				out = append(out, "     (invalid)")
				continue
			}
			var walk func(q configs.QueueConfig, prefix string)
			walk = func(q configs.QueueConfig, prefix string) {
				p := q.Name
				if prefix != "" {
					p = prefix + "." + q.Name
				}
				for _, l := range q.Limits {
					out = append(out, fmt.Sprintf("     %s: users=%v groups=%v res=%v apps=%d", p, l.Users, l.Groups, l.MaxResources, l.MaxApplications))
				}
				for _, ch := range q.Queues {
					walk(ch, p)
				}
			}
			walk(conf.Partitions[0].Queues[0], "")
		default:
			out = append(out, fmt.Sprintf("%2d %s %s user=%s queue=%s %s all=%v", i, op.Kind, op.App, op.User, op.Q, op.Res, op.All))
		}
	}
	return out
}

// flushUgmFailure minimises the recorded failing case (delta debugging over the op list, then over the limit entries
// and queues of every configuration, keeping the failure shape) and writes it out as the replay case.
func flushUgmFailure() {
	f := harness.TakeFailure("C05/limits")
	if f == nil {
		return
	}
	var c ugmCase
	if err := json.Unmarshal(f.Case, &c); err == nil {
		sig := harness.Signature(f.Message)
		deadline := time.Now().Add(60 * time.Second)
		fails := func(cand ugmCase) bool {
			msg, _, _ := runUgm(cand)
			return msg != "" && harness.Signature(msg) == sig
		}
		if fails(c) {
			for changed := true; changed && time.Now().Before(deadline); {
				changed = false
				// ops
				for chunk := len(c.Ops) / 2; chunk >= 1; chunk /= 2 {
					for i := 0; i+chunk <= len(c.Ops) && time.Now().Before(deadline); {
						cand := ugmCase{Ops: append(append([]ugmOp{}, c.Ops[:i]...), c.Ops[i+chunk:]...)}
						if fails(cand) {
							c, changed = cand, true
						} else {
							i++
						}
					}
				}
				// limit entries and queues inside the configurations
				for i := range c.Ops {
					if c.Ops[i].Kind != "config" {
						continue
					}
					for again := true; again && time.Now().Before(deadline); {
						again = false
						for _, v := range confVariants(c.Ops[i].Conf) {
							cand := ugmCase{Ops: append([]ugmOp{}, c.Ops...)}
							cand.Ops[i].Conf = v
							if fails(cand) {
								c, changed, again = cand, true, true
								break
							}
						}
					}
				}
			}
			f.Case, _ = json.Marshal(c)
			f.Message, _, _ = runUgm(c)
			f.Trace = summarizeUgm(c)
			f.Size = len(f.Case)
		}
	}
	harness.RecordFailure(f)
	harness.FlushFailure("C05/limits")
}

// confVariants returns the configuration with one limit entry, one resource type of a limit, or one leaf queue removed.
func confVariants(y string) []string {
	base, err := configs.LoadSchedulerConfigFromByteArray([]byte(y))
	if err != nil {
		return nil
	}
	var out []string
	count := 0
	var walk func(q *configs.QueueConfig, f func(q *configs.QueueConfig))
	walk = func(q *configs.QueueConfig, f func(q *configs.QueueConfig)) {
		f(q)
		for i := range q.Queues {
			walk(&q.Queues[i], f)
		}
	}
	walk(&base.Partitions[0].Queues[0], func(q *configs.QueueConfig) { count++ })
	for qi := 0; qi < count; qi++ {
		probe := harness.CloneConf(base)
		var target *configs.QueueConfig
		n := 0
		walk(&probe.Partitions[0].Queues[0], func(q *configs.QueueConfig) {
			if n == qi {
				target = q
			}
			n++
		})
		for li := range target.Limits {
			v := harness.CloneConf(base)
			n = 0
			walk(&v.Partitions[0].Queues[0], func(q *configs.QueueConfig) {
				if n == qi {
					q.Limits = append(append([]configs.Limit{}, q.Limits[:li]...), q.Limits[li+1:]...)
				}
				n++
			})
			if harness.ValidConf(v) {
				out = append(out, harness.MarshalConf(v))
			}
			for k := range target.Limits[li].MaxResources {
				if len(target.Limits[li].MaxResources) < 2 && target.Limits[li].MaxApplications == 0 {
					continue
				}
				v := harness.CloneConf(base)
				n = 0
				walk(&v.Partitions[0].Queues[0], func(q *configs.QueueConfig) {
					if n == qi {
						delete(q.Limits[li].MaxResources, k)
					}
					n++
				})
				if harness.ValidConf(v) {
					out = append(out, harness.MarshalConf(v))
				}
			}
		}
		for ci := range target.Queues {
			v := harness.CloneConf(base)
			n = 0
			walk(&v.Partitions[0].Queues[0], func(q *configs.QueueConfig) {
				if n == qi && ci < len(q.Queues) {
					q.Queues = append(append([]configs.QueueConfig{}, q.Queues[:ci]...), q.Queues[ci+1:]...)
				}
				n++
			})
			if harness.ValidConf(v) {
				out = append(out, harness.MarshalConf(v))
			}
		}
	}
	return out
}

// TestC05LimitsReplay re-executes a recorded failing case without the PBT library.
func TestC05LimitsReplay(t *testing.T) {
	path := os.Getenv("VERIF_REPLAY")
	if path == "" {
		t.Skip("no replay file")
	}
	f := loadFailure(t, path)
	if f.Check != "C05/limits" {
		t.Skipf("not a C05/limits replay: %s", f.Check)
	}
	var c ugmCase
	mustUnmarshal(t, f.Case, &c)
	if msg, _, _ := runUgm(c); msg != "" {
		t.Fatalf("REPLAY-FAIL %s: %s", f.Check, msg)
	}
}
