package props

// C20 — event history returns exactly the requested, gap-free range.
//
// (1) model-based state machine on the history ring buffer (Add / Resize / GetEventsFromID / GetRecentEvents) against a
//     reference "slice truncated to capacity";
// (2) model-based check of the shim event store (Store / CollectEvents / SetStoreSize);
// (3) streaming: subscribers created at arbitrary points of a publication history receive the requested history
//     followed by every later event once, in order, until closed.

import (
	"encoding/json"
	"fmt"
	"math"
	"os"
	"runtime"
	"sort"
	"sync/atomic"
	"testing"
	"time"

	"pgregory.net/rapid"

	"github.com/apache/yunikorn-core/pkg/events"
	"github.com/apache/yunikorn-scheduler-interface/lib/go/si"

	"verif/harness"
)

// rbOp is one op of a ring buffer script.
type rbOp struct {
	Kind  string `json:"kind"` // add, resize, query, recent
	N     uint64 `json:"n,omitempty"`
	Start uint64 `json:"start,omitempty"`
	Count uint64 `json:"count,omitempty"`
}

type rbCase struct {
	Capacity uint64 `json:"capacity"`
	Ops      []rbOp `json:"ops"`
}

// refRing is the reference model: every event ever added, plus the id of the oldest one still held.
type refRing struct {
	all      []*si.EventRecord // index = id
	lowest   uint64
	capacity uint64
}

func (r *refRing) add(e *si.EventRecord) {
	r.all = append(r.all, e)
	if uint64(len(r.all))-r.lowest > r.capacity {
		r.lowest = uint64(len(r.all)) - r.capacity
	}
}

func (r *refRing) resize(n uint64) {
	r.capacity = n
	if uint64(len(r.all))-r.lowest > r.capacity {
		r.lowest = uint64(len(r.all)) - r.capacity
	}
}

func (r *refRing) last() uint64 {
	if len(r.all) == 0 {
		return 0
	}
	return uint64(len(r.all)) - 1
}

// query: nil when start is outside [lowest, last]; otherwise ids start .. min(start+count-1, last)
func (r *refRing) query(start, count uint64) ([]*si.EventRecord, bool) {
	if len(r.all) == 0 || start < r.lowest || start > r.last() {
		return nil, false
	}
	end := uint64(len(r.all)) // exclusive
	if count < end-start {
		end = start + count
	}
	return r.all[start:end], true
}

func evID(e *si.EventRecord) string {
	if e == nil {
		return "<nil>"
	}
	return e.ObjectID
}

func idsOf(l []*si.EventRecord) []string {
	out := make([]string, 0, len(l))
	for _, e := range l {
		out = append(out, evID(e))
	}
	return out
}

func sameEvents(a, b []*si.EventRecord) bool {
	if len(a) != len(b) {
		return false
	}
	for i := range a {
		if a[i] != b[i] {
			return false
		}
	}
	return true
}

// runRing executes a script on the real buffer and the model; returns the first disagreement and statistics.
func runRing(c rbCase) (msg string, labels []string, nontrivial bool) {
	if c.Capacity == 0 {
		return "", nil, false
	}
	rb := events.NewVerifRingBuffer(c.Capacity)
	ref := &refRing{capacity: c.Capacity}
	lab := map[string]bool{}
	resized := false
	for i, op := range c.Ops {
		switch op.Kind {
		case "add":
			for j := uint64(0); j < op.N; j++ {
				e := &si.EventRecord{ObjectID: fmt.Sprintf("e%d", len(ref.all))}
				rb.Add(e)
				ref.add(e)
			}
		case "resize":
			if op.N == 0 {
				continue
			}
			rb.Resize(op.N)
			ref.resize(op.N)
			resized = true
			lab["resize"] = true
		case "query":
			got, low, high := rb.GetEventsFromID(op.Start, op.Count)
			want, found := ref.query(op.Start, op.Count)
			full := uint64(len(ref.all))-ref.lowest == ref.capacity
			if full {
				lab["query-full-buffer"] = true
			}
			if found && op.Start != ref.lowest && (full || resized) {
				nontrivial = true
			}
			if found {
				lab["query-in-range"] = true
			} else {
				lab["query-out-of-range"] = true
			}
			if len(ref.all) > 0 || low != 0 || high != 0 {
				if low != ref.lowest || high != ref.last() {
					return fmt.Sprintf("op %d query(%d,%d): reported available range [%d,%d], the buffer holds [%d,%d] (capacity %d, %d events added)", i, op.Start, op.Count, low, high, ref.lowest, ref.last(), ref.capacity, len(ref.all)), keys(lab), nontrivial
				}
			}
			if !found {
				if len(got) != 0 {
					return fmt.Sprintf("op %d query(%d,%d): start is outside [%d,%d] but %d events were returned: %v", i, op.Start, op.Count, ref.lowest, ref.last(), len(got), idsOf(got)), keys(lab), nontrivial
				}
				continue
			}
			if !sameEvents(got, want) {
				return fmt.Sprintf("op %d query(%d,%d) on buffer [%d,%d] capacity %d: got %v, want %v", i, op.Start, op.Count, ref.lowest, ref.last(), ref.capacity, idsOf(got), idsOf(want)), keys(lab), nontrivial
			}
		case "recent":
			got := rb.GetRecentEvents(op.Count)
			var want []*si.EventRecord
			held := uint64(len(ref.all)) - ref.lowest
			n := op.Count
			if n > held {
				n = held
			}
			want = ref.all[uint64(len(ref.all))-n:]
			lab["recent"] = true
			if uint64(len(ref.all)) == 0 {
				// an empty buffer: nothing may be returned
				if len(got) != 0 {
					return fmt.Sprintf("op %d recent(%d) on an empty buffer returned %v", i, op.Count, idsOf(got)), keys(lab), nontrivial
				}
				continue
			}
			if op.Count == 0 {
				// "the most recent 0 events": asking for nothing must not return more than nothing... the code asks
				// for id last+1 which does not exist; either way no events
				if len(got) != 0 {
					return fmt.Sprintf("op %d recent(0) returned %v", i, idsOf(got)), keys(lab), nontrivial
				}
				continue
			}
			if !sameEvents(got, want) {
				return fmt.Sprintf("op %d recent(%d) on buffer [%d,%d] capacity %d: got %v, want %v", i, op.Count, ref.lowest, ref.last(), ref.capacity, idsOf(got), idsOf(want)), keys(lab), nontrivial
			}
		}
		if got := rb.GetLastEventID(); got != ref.last() {
			return fmt.Sprintf("op %d: last event id is %d, %d events were added", i, got, len(ref.all)), keys(lab), nontrivial
		}
	}
	return "", keys(lab), nontrivial
}

func keys(m map[string]bool) []string {
	return harness.SortedKeys(m)
}

func genRingCase(t *rapid.T) rbCase {
	c := rbCase{Capacity: rapid.Uint64Range(1, 12).Draw(t, "capacity")}
	n := rapid.IntRange(1, 30).Draw(t, "ops")
	total, low, capacity := uint64(0), uint64(0), c.Capacity
	for i := 0; i < n; i++ {
		switch rapid.IntRange(0, 9).Draw(t, "kind") {
		case 0, 1, 2:
			k := rapid.Uint64Range(1, 15).Draw(t, "adds")
			c.Ops = append(c.Ops, rbOp{Kind: "add", N: k})
			total += k
		case 3:
			capacity = rapid.Uint64Range(1, 14).Draw(t, "newsize")
			c.Ops = append(c.Ops, rbOp{Kind: "resize", N: capacity})
		case 4:
			c.Ops = append(c.Ops, rbOp{Kind: "recent", Count: boundary(t, "rcount", 0, capacity, total)})
		default:
			c.Ops = append(c.Ops, rbOp{Kind: "query", Start: boundary(t, "start", low, capacity, total), Count: boundary(t, "count", 0, capacity, total)})
		}
		if total-low > capacity {
			low = total - capacity
		}
	}
	return c
}

// boundary draws a value around the interesting points: lowest id, head, last id, capacity, 0 and MaxUint64.
func boundary(t *rapid.T, label string, low, capacity, total uint64) uint64 {
	switch rapid.IntRange(0, 11).Draw(t, label+"-class") {
	case 0:
		return 0
	case 1:
		return math.MaxUint64 - rapid.Uint64Range(0, 2).Draw(t, label+"-max")
	case 2:
		return low + rapid.Uint64Range(0, 2).Draw(t, label+"-low")
	case 3:
		if low > 0 {
			return low - 1
		}
		return 0
	case 4:
		return total + rapid.Uint64Range(0, 1).Draw(t, label+"-total")
	case 5:
		if total > 0 {
			return total - 1
		}
		return 0
	case 6:
		return capacity + rapid.Uint64Range(0, 1).Draw(t, label+"-cap")
	default:
		hi := total + 2
		return rapid.Uint64Range(0, hi).Draw(t, label+"-any")
	}
}

func TestC20Ring(t *testing.T) {
	st := harness.NewStats("C20")
	defer st.Write()
	defer harness.FlushFailure("C20/ring")
	rapid.Check(t, func(t *rapid.T) {
		c := genRingCase(t)
		raw, _ := json.Marshal(c)
		msg, labels, nt := runRing(c)
		st.Case(harness.Fingerprint("ring"+string(raw)), nt, labels, c)
		if msg != "" {
			harness.RecordFailure(&harness.Failure{Property: "C20", Check: "C20/ring", Message: msg, Size: len(raw), Case: raw})
			t.Fatalf("%s", msg)
		}
	})
}

// FuzzC20Ring: the same oracle on byte scripts (thorough tier, coverage guided).
func FuzzC20Ring(f *testing.F) {
	f.Add([]byte{4, 0, 9, 5, 3, 2, 5, 7, 1})
	f.Add([]byte{10, 0, 15, 5, 7, 2, 3, 6, 0, 3, 5, 4, 4})
	f.Fuzz(func(t *testing.T, data []byte) {
		c := decodeRing(data)
		if msg, _, _ := runRing(c); msg != "" {
			raw, _ := json.Marshal(c)
			harness.RecordFailure(&harness.Failure{Property: "C20", Check: "C20/ring", Message: msg, Size: len(raw), Case: raw})
			harness.FlushFailure("C20/ring")
			t.Fatalf("%s\ncase: %+v", msg, c)
		}
	})
}

func decodeRing(data []byte) rbCase {
	if len(data) == 0 {
		return rbCase{}
	}
	c := rbCase{Capacity: uint64(data[0]%16) + 1}
	for i := 1; i+2 < len(data) && len(c.Ops) < 64; i += 3 {
		a, b := uint64(data[i+1]), uint64(data[i+2])
		switch data[i] % 8 {
		case 0, 1:
			c.Ops = append(c.Ops, rbOp{Kind: "add", N: a%20 + 1})
		case 2:
			c.Ops = append(c.Ops, rbOp{Kind: "resize", N: a%16 + 1})
		case 3:
			c.Ops = append(c.Ops, rbOp{Kind: "recent", Count: stretch(a)})
		default:
			c.Ops = append(c.Ops, rbOp{Kind: "query", Start: stretch(a), Count: stretch(b)})
		}
	}
	return c
}

func stretch(v uint64) uint64 {
	if v >= 250 {
		return math.MaxUint64 - (255 - v)
	}
	return v
}

// ---------------------------------------------------------------------------------------------- event store

type storeOp struct {
	Kind string `json:"kind"` // store, collect, size
	N    uint64 `json:"n,omitempty"`
}

type storeCase struct {
	Size uint64    `json:"size"`
	Ops  []storeOp `json:"ops"`
}

func runStore(c storeCase) (msg string, labels []string, nontrivial bool) {
	if c.Size == 0 {
		return "", nil, false
	}
	es := events.NewVerifEventStore(c.Size)
	lab := map[string]bool{}
	inForce := c.Size    // size the current backing array was made with
	configured := c.Size // size set by the last SetStoreSize
	var pending []*si.EventRecord
	seq := 0
	resizedSinceCollect := false
	for i, op := range c.Ops {
		switch op.Kind {
		case "store":
			for j := uint64(0); j < op.N; j++ {
				e := &si.EventRecord{ObjectID: fmt.Sprintf("s%d", seq)}
				seq++
				es.Store(e)
				if uint64(len(pending)) < inForce {
					pending = append(pending, e)
				} else {
					lab["store-dropped-when-full"] = true
				}
			}
		case "size":
			if op.N == 0 {
				continue
			}
			es.SetStoreSize(op.N)
			configured = op.N
			resizedSinceCollect = true
			lab["resize"] = true
		case "collect":
			got := es.CollectEvents()
			limit := inForce
			if configured > limit {
				limit = configured
			}
			if uint64(len(got)) > limit {
				return fmt.Sprintf("op %d: batch of %d events exceeds the configured size (in force %d, configured %d)", i, len(got), inForce, configured), keys(lab), nontrivial
			}
			if !sameEvents(got, pending) {
				return fmt.Sprintf("op %d: collected %v, stored since the last collect (up to the size in force %d): %v", i, idsOf(got), inForce, idsOf(pending)), keys(lab), nontrivial
			}
			if resizedSinceCollect && len(got) > 0 {
				nontrivial = true
			}
			if uint64(len(got)) == inForce {
				lab["collect-full"] = true
				nontrivial = true
			}
			pending = nil
			inForce = configured
			resizedSinceCollect = false
			if n := es.CountStoredEvents(); n != 0 {
				return fmt.Sprintf("op %d: %d events counted right after a collect", i, n), keys(lab), nontrivial
			}
		}
		if n := es.CountStoredEvents(); n != uint64(len(pending)) {
			return fmt.Sprintf("op %d: store counts %d events, %d were accepted since the last collect", i, n, len(pending)), keys(lab), nontrivial
		}
	}
	return "", keys(lab), nontrivial
}

func TestC20Store(t *testing.T) {
	st := harness.NewStats("C20")
	defer st.Write()
	defer harness.FlushFailure("C20/store")
	rapid.Check(t, func(t *rapid.T) {
		c := storeCase{Size: rapid.Uint64Range(1, 8).Draw(t, "size")}
		n := rapid.IntRange(1, 25).Draw(t, "ops")
		for i := 0; i < n; i++ {
			switch rapid.IntRange(0, 5).Draw(t, "kind") {
			case 0, 1, 2:
				c.Ops = append(c.Ops, storeOp{Kind: "store", N: rapid.Uint64Range(1, 10).Draw(t, "n")})
			case 3:
				c.Ops = append(c.Ops, storeOp{Kind: "size", N: rapid.Uint64Range(1, 10).Draw(t, "newsize")})
			default:
				c.Ops = append(c.Ops, storeOp{Kind: "collect"})
			}
		}
		raw, _ := json.Marshal(c)
		msg, labels, nt := runStore(c)
		st.Case(harness.Fingerprint("store"+string(raw)), nt, labels, c)
		if msg != "" {
			harness.RecordFailure(&harness.Failure{Property: "C20", Check: "C20/store", Message: msg, Size: len(raw), Case: raw})
			t.Fatalf("%s", msg)
		}
	})
}

// ---------------------------------------------------------------------------------------------- streaming

type streamOp struct {
	Kind  string `json:"kind"` // publish, subscribe, close
	N     int    `json:"n,omitempty"`
	Count uint64 `json:"count,omitempty"`
	Idx   int    `json:"idx,omitempty"`
}

type streamCase struct {
	Capacity uint64     `json:"capacity"`
	Ops      []streamOp `json:"ops"`
}

type subscriber struct {
	stream    *events.EventStream
	wantFirst int // index in the publication order of the first event it must see
	closedAt  int // number of events published when it was closed (-1: open)
	got       []*si.EventRecord
}

// runStream: the publisher is the test itself (Add + PublishEvent, exactly what the event system handler does per
// event); subscribers are created and closed between publications. Every subscriber must receive its history window
// followed by every later event exactly once and in order.
func runStream(c streamCase) (msg string, labels []string, nontrivial bool) {
	if c.Capacity == 0 {
		return "", nil, false
	}
	rb := events.NewVerifRingBuffer(c.Capacity)
	streaming := rb.Streaming()
	defer streaming.Close()
	ref := &refRing{capacity: c.Capacity}
	lab := map[string]bool{}
	var subs []*subscriber
	drain := func(s *subscriber, want int) string {
		deadline := time.After(30 * time.Second)
		for len(s.got) < want {
			select {
			case e, ok := <-s.stream.Events:
				if !ok {
					return fmt.Sprintf("stream closed after %d events, %d expected", len(s.got), want)
				}
				s.got = append(s.got, e)
			case <-deadline:
				return fmt.Sprintf("stream delivered %d events within 30s, %d expected", len(s.got), want)
			}
		}
		return ""
	}
	for i, op := range c.Ops {
		switch op.Kind {
		case "publish":
			for j := 0; j < op.N; j++ {
				e := &si.EventRecord{ObjectID: fmt.Sprintf("p%d", len(ref.all))}
				rb.Add(e)
				ref.add(e)
				streaming.PublishEvent(e)
			}
		case "subscribe":
			held := uint64(len(ref.all)) - ref.lowest
			n := op.Count
			if n > held {
				n = held
			}
			s := &subscriber{stream: streaming.CreateEventStream(fmt.Sprintf("sub-%d", len(subs)), op.Count), wantFirst: len(ref.all) - int(n), closedAt: -1}
			subs = append(subs, s)
			if n > 0 {
				lab["subscribe-with-history"] = true
			}
			if len(ref.all) > 0 {
				nontrivial = true
			}
		case "close":
			if len(subs) == 0 {
				continue
			}
			s := subs[op.Idx%len(subs)]
			if s.closedAt >= 0 {
				continue
			}
			// everything published so far must arrive before the close
			if m := drain(s, len(ref.all)-s.wantFirst); m != "" {
				return fmt.Sprintf("op %d: subscriber created with history: %s", i, m), keys(lab), nontrivial
			}
			streaming.RemoveEventStream(s.stream)
			s.closedAt = len(ref.all)
			lab["close"] = true
		}
	}
	for si2, s := range subs {
		end := len(ref.all)
		if s.closedAt >= 0 {
			end = s.closedAt
		}
		if m := drain(s, end-s.wantFirst); m != "" {
			return fmt.Sprintf("subscriber %d: %s", si2, m), keys(lab), nontrivial
		}
		want := ref.all[s.wantFirst:end]
		if !sameEvents(s.got, want) {
			return fmt.Sprintf("subscriber %d (history window starts at id %d, %d events published): received %v, want %v", si2, s.wantFirst, len(ref.all), idsOf(s.got), idsOf(want)), keys(lab), nontrivial
		}
		if s.closedAt < 0 {
			streaming.RemoveEventStream(s.stream)
		}
	}
	return "", keys(lab), nontrivial
}

func TestC20Stream(t *testing.T) {
	st := harness.NewStats("C20")
	defer st.Write()
	defer harness.FlushFailure("C20/stream")
	rapid.Check(t, func(t *rapid.T) {
		c := streamCase{Capacity: rapid.Uint64Range(1, 10).Draw(t, "capacity")}
		n := rapid.IntRange(1, 14).Draw(t, "ops")
		for i := 0; i < n; i++ {
			switch rapid.IntRange(0, 5).Draw(t, "kind") {
			case 0, 1, 2:
				c.Ops = append(c.Ops, streamOp{Kind: "publish", N: rapid.IntRange(1, 12).Draw(t, "n")})
			case 3, 4:
				c.Ops = append(c.Ops, streamOp{Kind: "subscribe", Count: boundary(t, "hist", 0, c.Capacity, 10)})
			default:
				c.Ops = append(c.Ops, streamOp{Kind: "close", Idx: rapid.IntRange(0, 5).Draw(t, "idx")})
			}
		}
		raw, _ := json.Marshal(c)
		msg, labels, nt := runStream(c)
		st.Case(harness.Fingerprint("stream"+string(raw)), nt, labels, c)
		if msg != "" {
			harness.RecordFailure(&harness.Failure{Property: "C20", Check: "C20/stream", Message: msg, Size: len(raw), Case: raw})
			t.Fatalf("%s", msg)
		}
	})
}

// ---- streaming with a concurrent publisher: the order of subscription and publication is up to the Go scheduler, the
// oracle is a validity predicate over what each subscriber received.

type cstreamCase struct {
	Capacity uint64   `json:"capacity"`
	Total    int      `json:"total"`
	SubAt    []int    `json:"sub_at"` // subscribe once this many events were published
	Counts   []uint64 `json:"counts"` // history requested
	Pause    []int    `json:"pause"`  // publisher yields after these many events
}

func eventNo(e *si.EventRecord) int {
	if e == nil {
		return -1
	}
	var n int
	if _, err := fmt.Sscanf(e.ObjectID, "p%d", &n); err != nil {
		return -1
	}
	return n
}

func runConcurrentStream(c cstreamCase) (msg string, labels []string, nontrivial bool) {
	if c.Capacity == 0 || c.Total == 0 {
		return "", nil, false
	}
	rb := events.NewVerifRingBuffer(c.Capacity)
	streaming := rb.Streaming()
	defer streaming.Close()
	lab := map[string]bool{}
	var published, delivered atomic.Int64 // added to the history / handed to the streams
	pause := map[int]bool{}
	for _, p := range c.Pause {
		pause[p] = true
	}
	done := make(chan struct{})
	go func() {
		defer close(done)
		for i := 0; i < c.Total; i++ {
			e := &si.EventRecord{ObjectID: fmt.Sprintf("p%d", i)}
			rb.Add(e)
			published.Add(1)
			streaming.PublishEvent(e)
			delivered.Add(1)
			if pause[i] {
				time.Sleep(20 * time.Microsecond)
			} else if i%3 == 0 {
				runtime.Gosched()
			}
		}
	}()
	type sub struct {
		stream *events.EventStream
		a, b   int
		count  uint64
	}
	var subs []*sub
	for i, at := range c.SubAt {
		for int(published.Load()) < at && int(published.Load()) < c.Total {
			runtime.Gosched()
		}
		s := &sub{count: c.Counts[i]}
		s.a = int(delivered.Load())
		s.stream = streaming.CreateEventStream(fmt.Sprintf("csub-%d", i), s.count)
		s.b = int(published.Load())
		subs = append(subs, s)
		if s.a > 0 && s.a < c.Total {
			lab["subscribed-while-publishing"] = true
			nontrivial = true
		}
		if s.b > s.a {
			lab["published-during-subscribe"] = true
		}
	}
	<-done
	last := c.Total - 1
	for i, s := range subs {
		var got []int
		deadline := time.After(30 * time.Second)
	read:
		for len(got) == 0 || got[len(got)-1] != last {
			if s.b >= c.Total && s.count == 0 {
				break // nothing was requested and nothing was published afterwards
			}
			select {
			case e, ok := <-s.stream.Events:
				if !ok {
					break read
				}
				got = append(got, eventNo(e))
			case <-deadline:
				break read
			}
		}
		streaming.RemoveEventStream(s.stream)
		where := fmt.Sprintf("subscriber %d (history %d, subscribed when %d..%d of %d events were published, capacity %d)", i, s.count, s.a, s.b, c.Total, c.Capacity)
		if len(got) == 0 {
			if s.b < c.Total {
				return fmt.Sprintf("%s received nothing although %d events were published afterwards", where, c.Total-s.b), keys(lab), nontrivial
			}
			continue
		}
		for j := 1; j < len(got); j++ {
			if got[j] != got[j-1]+1 {
				return fmt.Sprintf("%s received ids %v: not consecutive at position %d", where, got, j), keys(lab), nontrivial
			}
		}
		if got[len(got)-1] != last {
			return fmt.Sprintf("%s received ids %v: the last published event %d never arrived", where, got, last), keys(lab), nontrivial
		}
		if got[0] > s.b {
			return fmt.Sprintf("%s received ids starting at %d: events published after the subscription returned were skipped", where, got[0]), keys(lab), nontrivial
		}
		if uint64(s.a) > s.count && got[0] < s.a-int(s.count) {
			return fmt.Sprintf("%s received ids starting at %d: more history than requested", where, got[0]), keys(lab), nontrivial
		}
	}
	return "", keys(lab), nontrivial
}

func TestC20StreamConcurrent(t *testing.T) {
	st := harness.NewStats("C20")
	defer st.Write()
	defer harness.FlushFailure("C20/cstream")
	rapid.Check(t, func(t *rapid.T) {
		c := cstreamCase{Capacity: rapid.Uint64Range(1, 40).Draw(t, "capacity"), Total: rapid.IntRange(1, 120).Draw(t, "total")}
		n := rapid.IntRange(1, 4).Draw(t, "subs")
		for i := 0; i < n; i++ {
			c.SubAt = append(c.SubAt, rapid.IntRange(0, c.Total).Draw(t, "at"))
			c.Counts = append(c.Counts, boundary(t, "hist", 0, c.Capacity, uint64(c.Total)))
		}
		sort.Ints(c.SubAt)
		for i := rapid.IntRange(0, 6).Draw(t, "pauses"); i > 0; i-- {
			c.Pause = append(c.Pause, rapid.IntRange(0, c.Total).Draw(t, "pause"))
		}
		raw, _ := json.Marshal(c)
		msg, labels, nt := runConcurrentStream(c)
		st.Case(harness.Fingerprint("cstream"+string(raw)), nt, labels, c)
		if msg != "" {
			harness.RecordFailure(&harness.Failure{Property: "C20", Check: "C20/cstream", Message: msg, Size: len(raw), Case: raw})
			t.Fatalf("%s", msg)
		}
	})
}

// ---- streaming through the real event system (asynchronous handler goroutine): events are added with AddEvent while
// subscribers are created and history queries run concurrently. Every subscriber must see a gap-free, duplicate-free,
// ordered sequence that ends with the last event.

type sysStreamCase struct {
	Total  int      `json:"total"`
	SubAt  []int    `json:"sub_at"`
	Counts []uint64 `json:"counts"`
	Reader bool     `json:"reader"` // a concurrent history reader keeps the ring buffer lock busy
}

func runSystemStream(c sysStreamCase) (msg string, labels []string, nontrivial bool) {
	if c.Total == 0 {
		return "", nil, false
	}
	events.Init()
	sys, ok := events.GetEventSystem().(*events.EventSystemImpl)
	if !ok {
		return "", nil, false
	}
	sys.StartServiceWithPublisher(false)
	defer sys.Stop()
	lab := map[string]bool{}
	var added, started atomic.Int64 // AddEvent returned / AddEvent about to be called
	stopReader := make(chan struct{})
	if c.Reader {
		lab["concurrent-history-reader"] = true
		go func() {
			for {
				select {
				case <-stopReader:
					return
				default:
					sys.GetEventsFromID(0, 1000)
				}
			}
		}()
	}
	done := make(chan struct{})
	go func() {
		defer close(done)
		for i := 0; i < c.Total; i++ {
			started.Add(1)
			sys.AddEvent(&si.EventRecord{ObjectID: fmt.Sprintf("p%d", i)})
			added.Add(1)
			if i%5 == 0 {
				runtime.Gosched()
			}
		}
	}()
	type sub struct {
		stream *events.EventStream
		count  uint64
		at, b  int // events submitted before the subscription was requested / when it returned
	}
	var subs []*sub
	for i, at := range c.SubAt {
		for int(added.Load()) < at && int(added.Load()) < c.Total {
			runtime.Gosched()
		}
		s := &sub{count: c.Counts[i], at: int(added.Load())}
		s.stream = sys.CreateEventStream(fmt.Sprintf("sys-%d", i), s.count)
		s.b = int(started.Load()) // every event from this index on is submitted after the subscription returned
		subs = append(subs, s)
		if s.at > 0 && s.at < c.Total {
			nontrivial = true
			lab["subscribed-while-publishing"] = true
		}
	}
	<-done
	close(stopReader)
	last := c.Total - 1
	for i, s := range subs {
		var got []int
		// events submitted after the subscription returned are processed after the registration: they must arrive.
		// Without such an event nothing can be demanded: only what arrives within a moment is looked at.
		wait := 30 * time.Second
		if s.b >= c.Total {
			wait = 20 * time.Millisecond
		}
		deadline := time.After(wait)
	read:
		for len(got) == 0 || got[len(got)-1] != last {
			select {
			case e, ok := <-s.stream.Events:
				if !ok {
					break read
				}
				got = append(got, eventNo(e))
			case <-deadline:
				break read
			}
		}
		sys.RemoveStream(s.stream)
		where := fmt.Sprintf("subscriber %d (history %d, subscribed after %d of %d events were submitted)", i, s.count, s.at, c.Total)
		if len(got) == 0 {
			if s.b < c.Total {
				return fmt.Sprintf("%s received nothing although %d events were submitted after the subscription returned", where, c.Total-s.b), keys(lab), nontrivial
			}
			continue
		}
		for j := 1; j < len(got); j++ {
			if got[j] != got[j-1]+1 {
				return fmt.Sprintf("%s received ids %v: not consecutive at position %d", where, got, j), keys(lab), nontrivial
			}
		}
		if s.b < c.Total && got[len(got)-1] != last {
			return fmt.Sprintf("%s received ids %v: the last event %d never arrived", where, got, last), keys(lab), nontrivial
		}
	}
	return "", keys(lab), nontrivial
}

func TestC20SystemStream(t *testing.T) {
	st := harness.NewStats("C20")
	defer st.Write()
	defer harness.FlushFailure("C20/sysstream")
	rapid.Check(t, func(t *rapid.T) {
		c := sysStreamCase{Total: rapid.IntRange(1, 150).Draw(t, "total"), Reader: rapid.Bool().Draw(t, "reader")}
		n := rapid.IntRange(1, 4).Draw(t, "subs")
		for i := 0; i < n; i++ {
			c.SubAt = append(c.SubAt, rapid.IntRange(0, c.Total).Draw(t, "at"))
			c.Counts = append(c.Counts, boundary(t, "hist", 0, 100, uint64(c.Total)))
		}
		sort.Ints(c.SubAt)
		raw, _ := json.Marshal(c)
		msg, labels, nt := runSystemStream(c)
		st.Case(harness.Fingerprint("sysstream"+string(raw)), nt, labels, c)
		if msg != "" {
			harness.RecordFailure(&harness.Failure{Property: "C20", Check: "C20/sysstream", Message: msg, Size: len(raw), Case: raw})
			t.Fatalf("%s", msg)
		}
	})
}

// TestC20Replay re-executes a recorded failing case without the PBT library.
func TestC20Replay(t *testing.T) {
	path := os.Getenv("VERIF_REPLAY")
	if path == "" {
		t.Skip("no replay file")
	}
	f := loadFailure(t, path)
	var msg string
	switch f.Check {
	case "C20/ring":
		var c rbCase
		mustUnmarshal(t, f.Case, &c)
		msg, _, _ = runRing(c)
	case "C20/store":
		var c storeCase
		mustUnmarshal(t, f.Case, &c)
		msg, _, _ = runStore(c)
	case "C20/stream":
		var c streamCase
		mustUnmarshal(t, f.Case, &c)
		msg, _, _ = runStream(c)
	case "C20/sysstream":
		var c sysStreamCase
		mustUnmarshal(t, f.Case, &c)
		for i := 0; i < 300 && msg == ""; i++ {
			msg, _, _ = runSystemStream(c)
		}
	case "C20/cstream":
		var c cstreamCase
		mustUnmarshal(t, f.Case, &c)
		// schedule dependent: try a number of times
		for i := 0; i < 200 && msg == ""; i++ {
			msg, _, _ = runConcurrentStream(c)
		}
	default:
		t.Skipf("not a C20 replay: %s", f.Check)
	}
	if msg != "" {
		t.Fatalf("REPLAY-FAIL %s: %s", f.Check, msg)
	}
}
