package props

// C17 — placement puts applications only where rules and ACLs allow.
//
// Generated: a queue tree with ACLs, a chain of 1-3 placement rules (provided / user / tag / fixed, optional fixed parent
// rule, filters with user and group lists or a regular expression, create flags), then 5-15 application submissions
// (users with groups, requested queue in many spellings, namespace tag, force flag) on a real partition.
// Oracle: (1) validity of every outcome (accepted => existing active leaf the user may submit to, new queues only under
// non-leaf parents with valid names, recovery queue only when forced; rejected => reason given, no trace);
// (2) differential against a reference evaluator of the rule chain that answers accept(q) / reject / don't-know: whenever
// it knows, the core must agree.

import (
	"encoding/json"
	"fmt"
	"os"
	"regexp"
	"sort"
	"strings"
	"testing"

	"pgregory.net/rapid"

	"github.com/apache/yunikorn-core/pkg/common/configs"
	"github.com/apache/yunikorn-core/pkg/rmproxy/rmevent"
	siCommon "github.com/apache/yunikorn-scheduler-interface/lib/go/common"

	"verif/harness"
)

type c17Case struct {
	Conf string       `json:"conf"`
	Apps []harness.Op `json:"apps"`
}

var (
	c17Name    = regexp.MustCompile(`^[a-zA-Z0-9_:#/@-]{1,64}$`)
	c17Special = regexp.MustCompile(`[\^$*+?()\[{}|]`)
	c17UserRe  = regexp.MustCompile(`^[_a-zA-Z][a-zA-Z0-9:#/_.@-]*[$]?$`)
)

// ---- reference model --------------------------------------------------------------------------------

type refQueue struct {
	leaf, managed, draining bool
	submit, admin           string
}

type refState struct {
	queues map[string]*refQueue
}

func aclAllows(acl string, user string, groups []string) bool {
	if strings.TrimSpace(acl) == "*" {
		return true
	}
	if acl == "" {
		return false
	}
	fields := strings.Split(acl, " ")
	for _, u := range strings.Split(fields[0], ",") {
		if u == "*" && len(strings.Split(fields[0], ",")) == 1 {
			return true
		}
		if u != "" && u == user {
			return true
		}
	}
	if len(fields) == 2 {
		gl := strings.Split(fields[1], ",")
		if len(gl) == 1 && gl[0] == "*" {
			return true
		}
		for _, g := range gl {
			for _, ug := range groups {
				if g != "" && g == ug {
					return true
				}
			}
		}
	}
	return false
}

func (s *refState) submitAccess(path, user string, groups []string) bool {
	for p := path; p != ""; {
		if q := s.queues[p]; q != nil && (aclAllows(q.submit, user, groups) || aclAllows(q.admin, user, groups)) {
			return true
		}
		i := strings.LastIndex(p, ".")
		if i < 0 {
			break
		}
		p = p[:i]
	}
	return false
}

func filterAllows(f configs.Filter, user string, groups []string) (allowed bool, known bool) {
	allow := f.Type != "deny"
	if f.Type != "" && f.Type != "allow" && f.Type != "deny" {
		return false, false
	}
	if len(f.Users) == 0 && len(f.Groups) == 0 {
		return allow, true
	}
	match := func(list []string, v string) (bool, bool) {
		if len(list) == 1 && c17Special.MatchString(list[0]) {
			re, err := regexp.Compile(list[0])
			if err != nil {
				return false, false
			}
			return re.MatchString(v), true
		}
		for _, e := range list {
			if !c17UserRe.MatchString(e) {
				return false, false
			}
			if e == v {
				return true, true
			}
		}
		return false, true
	}
	if len(f.Users) > 0 {
		m, ok := match(f.Users, user)
		if !ok {
			return false, false
		}
		if m {
			return allow, true
		}
	}
	if len(f.Groups) > 0 {
		for _, g := range groups {
			m, ok := match(f.Groups, g)
			if !ok {
				return false, false
			}
			if m {
				return allow, true
			}
		}
	}
	return !allow, true
}

const (
	stYield   = "yield"
	stNoMatch = "nomatch"
	stUnknown = "unknown"
)

// evalRule: what one rule returns for the application (queue name, or no match, or "this model does not cover it").
func evalRule(r configs.PlacementRule, app harness.Op, s *refState, nested bool) (string, string) {
	name := strings.ToLower(r.Name)
	allowed, known := filterAllows(r.Filter, app.User, app.Groups)
	if !known {
		return "", stUnknown
	}
	validParts := func(path string) bool {
		for _, p := range strings.Split(path, ".") {
			if !c17Name.MatchString(p) {
				return false
			}
		}
		return true
	}
	parentOf := func() (string, string) {
		if r.Parent == nil {
			return "root", stYield
		}
		pn, st := evalRule(*r.Parent, app, s, true)
		if st != stYield {
			return "", st
		}
		if !strings.HasPrefix(pn, "root.") {
			pn = "root." + pn
		}
		if q := s.queues[pn]; q != nil && q.leaf {
			return "", stUnknown // error path: parent rule returned a leaf
		}
		return pn, stYield
	}
	finish := func(queueName string) (string, string) {
		if !r.Create && s.queues[queueName] == nil {
			return "", stNoMatch
		}
		return queueName, stYield
	}
	switch name {
	case "fixed":
		if !allowed {
			return "", stNoMatch
		}
		v := strings.ToLower(r.Value)
		if v == "" || !validParts(v) {
			return "", stUnknown
		}
		if strings.HasPrefix(v, "root") {
			if !strings.HasPrefix(v, "root.") && v != "root" {
				return "", stUnknown
			}
			return finish(v)
		}
		pn, st := parentOf()
		if st != stYield {
			return "", st
		}
		return finish(pn + "." + v)
	case "provided":
		q := app.Queue
		if q == "" {
			return "", stNoMatch
		}
		if q != strings.ToLower(q) {
			return "", stUnknown // the requested name is used as given: mixed case is not modelled
		}
		if !allowed {
			return "", stNoMatch
		}
		if strings.HasPrefix(q, "root.") {
			if !validParts(q) {
				return "", stUnknown // error path
			}
			return finish(q)
		}
		if strings.Contains(q, ".") || !c17Name.MatchString(q) {
			return "", stUnknown
		}
		pn, st := parentOf()
		if st != stYield {
			return "", st
		}
		return finish(pn + "." + q)
	case "user":
		if !allowed {
			return "", stNoMatch
		}
		if strings.Contains(app.User, ".") || !c17Name.MatchString(app.User) {
			return "", stUnknown
		}
		pn, st := parentOf()
		if st != stYield {
			return "", st
		}
		return finish(pn + "." + strings.ToLower(app.User))
	case "tag":
		tv := app.Tags[strings.ToLower(r.Value)]
		if r.Value == "" || tv != strings.ToLower(tv) {
			return "", stUnknown
		}
		if tv == "" {
			return "", stNoMatch
		}
		if !allowed {
			return "", stNoMatch
		}
		if strings.HasPrefix(tv, "root.") {
			if !validParts(tv) {
				return "", stUnknown
			}
			return finish(tv)
		}
		if strings.Contains(tv, ".") || !c17Name.MatchString(tv) {
			return "", stUnknown
		}
		pn, st := parentOf()
		if st != stYield {
			return "", st
		}
		return finish(pn + "." + tv)
	}
	return "", stUnknown
}

// refPlace: verdict of the whole chain: ("accept", queue) / ("reject", "") / ("unknown", "").
func refPlace(rules []configs.PlacementRule, app harness.Op, s *refState) (string, string) {
	forced := app.Tags[siCommon.AppTagCreateForce] == "true"
	for _, r := range rules {
		q, st := evalRule(r, app, s, false)
		if st == stUnknown {
			return "unknown", ""
		}
		if st == stNoMatch {
			continue
		}
		if strings.EqualFold(q, "root.@recovery@") {
			if forced {
				return "accept", "root.@recovery@"
			}
			continue // never for an application that is not forced
		}
		if strings.Contains(q, "@recovery@") {
			return "unknown", ""
		}
		if rq := s.queues[q]; rq != nil {
			if !rq.leaf || !s.submitAccess(q, app.User, app.Groups) || rq.draining {
				continue
			}
			return "accept", q
		}
		// does not exist: the lowest existing ancestor decides
		anc := q
		for s.queues[anc] == nil {
			anc = anc[:strings.LastIndex(anc, ".")]
		}
		if s.queues[anc].leaf {
			continue // nothing can be created below a leaf: next rule
		}
		if !s.submitAccess(anc, app.User, app.Groups) {
			continue
		}
		return "accept", q
	}
	// the recovery rule is always the last rule of the chain: it yields the recovery queue for a forced application,
	// otherwise nothing; after the last rule the default queue is tried (same checks as for any rule result)
	if forced {
		return "accept", "root.@recovery@"
	}
	if d := s.queues["root.default"]; d != nil && d.leaf && !d.draining && s.submitAccess("root.default", app.User, app.Groups) {
		return "accept", "root.default"
	}
	return "reject", ""
}

// ---- generator --------------------------------------------------------------------------------------

var c17ACLs = []string{"*", "", "", "u1", "u1,u2", " g1", "u3 g2", " g3"}

func genC17Conf(t *rapid.T) *configs.SchedulerConfig {
	root := configs.QueueConfig{Name: "root", Parent: true, SubmitACL: rapid.SampledFrom([]string{"", "", "*", "u1"}).Draw(t, "root-acl"), AdminACL: rapid.SampledFrom([]string{"", "", " g3"}).Draw(t, "root-admin")}
	names := []string{"a", "b", "dev", "default", "ns1", "u1", "Prod"}
	n := rapid.IntRange(2, 4).Draw(t, "children")
	used := map[string]bool{}
	for i := 0; i < n; i++ {
		nm := rapid.SampledFrom(names).Draw(t, "name")
		if used[strings.ToLower(nm)] {
			continue
		}
		used[strings.ToLower(nm)] = true
		q := configs.QueueConfig{Name: nm, SubmitACL: rapid.SampledFrom(c17ACLs).Draw(t, "acl"), AdminACL: rapid.SampledFrom([]string{"", "", "", "u2", " g1"}).Draw(t, "admin")}
		if rapid.IntRange(0, 2).Draw(t, "parent") == 0 {
			q.Parent = true
			m := rapid.IntRange(0, 3).Draw(t, "grandchildren")
			used2 := map[string]bool{}
			for j := 0; j < m; j++ {
				nm2 := rapid.SampledFrom(names).Draw(t, "name2")
				if used2[strings.ToLower(nm2)] {
					continue
				}
				used2[strings.ToLower(nm2)] = true
				q.Queues = append(q.Queues, configs.QueueConfig{Name: nm2, SubmitACL: rapid.SampledFrom(c17ACLs).Draw(t, "acl2"), AdminACL: rapid.SampledFrom([]string{"", "", "u3"}).Draw(t, "admin2")})
			}
			if rapid.Bool().Draw(t, "template") {
				q.ChildTemplate.MaxApplications = rapid.Uint64Range(1, 3).Draw(t, "tmpl-apps")
				q.ChildTemplate.Resources.Max = map[string]string{"memory": "7"}
			}
		}
		root.Queues = append(root.Queues, q)
	}
	part := configs.PartitionConfig{Name: "default", Queues: []configs.QueueConfig{root}}
	var parents, leaves []string
	for _, q := range root.Queues {
		if q.Parent {
			parents = append(parents, "root."+strings.ToLower(q.Name))
			for _, c := range q.Queues {
				leaves = append(leaves, "root."+strings.ToLower(q.Name)+"."+strings.ToLower(c.Name))
			}
		} else {
			leaves = append(leaves, "root."+strings.ToLower(q.Name))
		}
	}
	genFilter := func(label string) configs.Filter {
		f := configs.Filter{}
		if rapid.IntRange(0, 2).Draw(t, label+"-none") == 0 {
			return f
		}
		f.Type = rapid.SampledFrom([]string{"", "allow", "deny"}).Draw(t, label+"-type")
		switch rapid.IntRange(0, 3).Draw(t, label+"-users") {
		case 0:
			f.Users = []string{rapid.SampledFrom([]string{"u1", "u2", "u3"}).Draw(t, label+"-u")}
		case 1:
			f.Users = []string{"u1", "u3"}
		case 2:
			f.Users = []string{rapid.SampledFrom([]string{"u[12]", "^u3$", "u.*"}).Draw(t, label+"-ure")}
		}
		switch rapid.IntRange(0, 3).Draw(t, label+"-groups") {
		case 0:
			f.Groups = []string{rapid.SampledFrom([]string{"g1", "g2", "g3"}).Draw(t, label+"-g")}
		case 1:
			f.Groups = []string{"g2", "g3"}
		}
		return f
	}
	genParent := func(label string) *configs.PlacementRule {
		if rapid.IntRange(0, 2).Draw(t, label+"-has") != 0 {
			return nil
		}
		v := "root.nosuchparent"
		if len(parents) > 0 && rapid.IntRange(0, 4).Draw(t, label+"-existing") != 0 {
			v = rapid.SampledFrom(parents).Draw(t, label+"-value")
		} else if len(leaves) > 0 && rapid.Bool().Draw(t, label+"-leaf") {
			v = rapid.SampledFrom(leaves).Draw(t, label+"-leafvalue")
		}
		return &configs.PlacementRule{Name: "fixed", Value: v, Create: rapid.Bool().Draw(t, label+"-create"), Filter: genFilter(label + "-filter")}
	}
	nr := rapid.IntRange(1, 3).Draw(t, "rules")
	for i := 0; i < nr; i++ {
		lbl := fmt.Sprintf("rule-%d", i)
		r := configs.PlacementRule{Create: rapid.Bool().Draw(t, lbl+"-create"), Filter: genFilter(lbl)}
		switch rapid.IntRange(0, 3).Draw(t, lbl+"-kind") {
		case 0:
			r.Name = "provided"
			r.Parent = genParent(lbl + "-parent")
		case 1:
			r.Name = "user"
			r.Parent = genParent(lbl + "-parent")
		case 2:
			r.Name = "tag"
			r.Value = "namespace"
			r.Parent = genParent(lbl + "-parent")
		default:
			r.Name = "fixed"
			pool := append(append([]string{}, leaves...), parents...)
			pool = append(pool, "root.created", "created")
			if len(parents) > 0 {
				pool = append(pool, parents[0]+".created")
			}
			if len(leaves) > 0 {
				pool = append(pool, leaves[0]+".below")
			}
			r.Value = rapid.SampledFrom(pool).Draw(t, lbl+"-value")
			if !strings.HasPrefix(r.Value, "root") {
				r.Parent = genParent(lbl + "-parent")
			}
		}
		part.PlacementRules = append(part.PlacementRules, r)
	}
	return &configs.SchedulerConfig{Partitions: []configs.PartitionConfig{part}}
}

func genC17(t *rapid.T) c17Case {
	conf := genC17Conf(t)
	c := c17Case{Conf: harness.MarshalConf(conf)}
	leaves, parents := harness.LeafPaths(conf)
	n := rapid.IntRange(5, 15).Draw(t, "apps")
	for i := 0; i < n; i++ {
		user := rapid.SampledFrom(harness.Users).Draw(t, "user")
		op := harness.Op{Kind: harness.OpAddApp, App: fmt.Sprintf("app-%d", i+1), User: user, Groups: harness.UserGroups[user], Tags: map[string]string{}}
		pool := append(append([]string{}, leaves...), parents...)
		pool = append(pool, "", "newq", "root.newq", "a", "dev", "ns1", "root.a.x", "ROOT.A", "Dev", "root", "bad name", "root.bad*name", "a.b", "root.dev.newleaf", "root.@recovery@")
		op.Queue = rapid.SampledFrom(pool).Draw(t, "queue")
		if rapid.IntRange(0, 2).Draw(t, "has-tag") == 0 {
			op.Tags["namespace"] = rapid.SampledFrom([]string{"ns1", "dev", "NS2", "root.a", "a.b", "x y"}).Draw(t, "tag")
		}
		if rapid.IntRange(0, 7).Draw(t, "forced") == 0 {
			op.Tags[siCommon.AppTagCreateForce] = "true"
		}
		c.Apps = append(c.Apps, op)
	}
	return c
}

// ---- check ------------------------------------------------------------------------------------------

func refStateOf(conf *configs.SchedulerConfig, snap *harness.Snapshot) *refState {
	s := &refState{queues: map[string]*refQueue{}}
	acls := map[string][2]string{}
	var walk func(q configs.QueueConfig, prefix string)
	walk = func(q configs.QueueConfig, prefix string) {
		p := strings.ToLower(q.Name)
		if prefix != "" {
			p = prefix + "." + p
		}
		acls[p] = [2]string{q.SubmitACL, q.AdminACL}
		for _, ch := range q.Queues {
			walk(ch, p)
		}
	}
	walk(conf.Partitions[0].Queues[0], "")
	for path, q := range snap.Queues {
		s.queues[path] = &refQueue{leaf: q.Leaf, managed: q.Managed, draining: q.Status == "Draining", submit: acls[path][0], admin: acls[path][1]}
	}
	return s
}

func runC17(c c17Case) (msg string, labels []string, nontrivial bool) {
	conf, err := configs.LoadSchedulerConfigFromByteArray([]byte(c.Conf))
	if err != nil {
		return "", []string{"config-rejected"}, false
	}
	lab := map[string]bool{}
	rules := conf.Partitions[0].PlacementRules
	w2, why2 := harness.OpenWorld(c.Conf, harness.WorldOpts{NoPredicates: true}, "C17")
	if w2 == nil {
		return "", []string{"config-not-loadable:" + firstWord(why2)}, false
	}
	defer w2.Close()
	for _, op := range c.Apps {
		pre := w2.Last
		st := refStateOf(conf, pre)
		verdict, wantQ := refPlace(rules, op, st)
		res := w2.Step(op)
		if res.Panic != "" {
			return "core panics on " + op.String() + ": " + strings.SplitN(res.Panic, "\n", 2)[0], keys(lab), nontrivial
		}
		post := w2.Last
		accepted, reason := false, ""
		for _, ev := range res.Events {
			if u, ok := ev.(*rmevent.RMApplicationUpdateEvent); ok {
				for _, a := range u.AcceptedApplications {
					if a.ApplicationID == op.App {
						accepted = true
					}
				}
				for _, r := range u.RejectedApplications {
					if r.ApplicationID == op.App {
						reason = r.Reason
						if reason == "" {
							return fmt.Sprintf("application %s rejected without a reason", op.App), keys(lab), nontrivial
						}
					}
				}
			}
		}
		where := fmt.Sprintf("%s (user %s groups %v queue %q tags %v)", op.App, op.User, op.Groups, op.Queue, op.Tags)
		if accepted {
			app := post.Apps[op.App]
			if app == nil {
				return fmt.Sprintf("%s accepted but not listed by the partition", where), keys(lab), nontrivial
			}
			q := post.Queues[app.Queue]
			if q == nil || !q.Leaf {
				return fmt.Sprintf("%s accepted into %s which is not an existing leaf queue", where, app.Queue), keys(lab), nontrivial
			}
			forced := op.Tags[siCommon.AppTagCreateForce] == "true"
			if strings.Contains(app.Queue, "@recovery@") {
				lab["recovery-queue-used"] = true
				if !forced {
					return fmt.Sprintf("%s accepted into the recovery queue although it is not force created", where), keys(lab), nontrivial
				}
			} else {
				if pq := pre.Queues[app.Queue]; pq != nil {
					if pq.Status != "Active" {
						return fmt.Sprintf("%s accepted into %s which was %s", where, app.Queue, pq.Status), keys(lab), nontrivial
					}
				} else {
					lab["queue-created"] = true
					nontrivial = true
					// created: valid name parts, under a non-leaf parent that existed, some rule has create enabled
					anc := app.Queue
					for pre.Queues[anc] == nil {
						part := anc[strings.LastIndex(anc, ".")+1:]
						if !c17Name.MatchString(part) {
							return fmt.Sprintf("%s created queue %s with an invalid name part %q", where, app.Queue, part), keys(lab), nontrivial
						}
						anc = anc[:strings.LastIndex(anc, ".")]
					}
					if pre.Queues[anc].Leaf {
						return fmt.Sprintf("%s created queue %s below %s which was a leaf", where, app.Queue, anc), keys(lab), nontrivial
					}
					anyCreate := false
					var hasCreate func(r configs.PlacementRule) bool
					hasCreate = func(r configs.PlacementRule) bool {
						return r.Create || (r.Parent != nil && hasCreate(*r.Parent))
					}
					for _, r := range rules {
						anyCreate = anyCreate || hasCreate(r)
					}
					if !anyCreate {
						return fmt.Sprintf("%s created queue %s although no rule has create enabled", where, app.Queue), keys(lab), nontrivial
					}
					// template of the parent
					parentPath := app.Queue[:strings.LastIndex(app.Queue, ".")]
					if pp := post.Queues[parentPath]; pp != nil && pp.Template != nil && pp.Template.MaxApplications != 0 && q.MaxApps != pp.Template.MaxApplications {
						return fmt.Sprintf("%s created queue %s with max applications %d, the parent's child template says %d", where, app.Queue, q.MaxApps, pp.Template.MaxApplications), keys(lab), nontrivial
					}
				}
				if !st.submitAccess(nearestExisting(app.Queue, st), op.User, op.Groups) {
					return fmt.Sprintf("%s accepted into %s: neither the submit nor the admin ACL of the queue or an ancestor admits the user", where, app.Queue), keys(lab), nontrivial
				}
			}
		} else {
			if reason == "" {
				return fmt.Sprintf("%s got neither an accepted nor a rejected answer", where), keys(lab), nontrivial
			}
			if _, listed := post.Apps[op.App]; listed {
				return fmt.Sprintf("%s rejected (%s) but listed by the partition", where, reason), keys(lab), nontrivial
			}
			for path := range post.Queues {
				if pre.Queues[path] == nil {
					return fmt.Sprintf("%s rejected (%s) but queue %s was created", where, reason, path), keys(lab), nontrivial
				}
			}
		}
		// differential
		switch verdict {
		case "accept":
			lab["ref-accept"] = true
			if len(rules) >= 2 {
				nontrivial = true
			}
			if !accepted {
				return fmt.Sprintf("%s rejected (%s): the rule chain and ACLs place it in %s", where, reason, wantQ), keys(lab), nontrivial
			}
			if got := post.Apps[op.App].Queue; got != wantQ {
				return fmt.Sprintf("%s placed in %s: the first rule whose filter admits the user and whose queue the user may submit to gives %s", where, got, wantQ), keys(lab), nontrivial
			}
		case "reject":
			lab["ref-reject"] = true
			if accepted {
				return fmt.Sprintf("%s accepted into %s although no rule matches for this user", where, post.Apps[op.App].Queue), keys(lab), nontrivial
			}
		default:
			lab["ref-unknown"] = true
		}
	}
	return "", keys(lab), nontrivial
}

func nearestExisting(path string, s *refState) string {
	for s.queues[path] == nil && strings.Contains(path, ".") {
		path = path[:strings.LastIndex(path, ".")]
	}
	return path
}

func firstWord(s string) string {
	f := strings.Fields(s)
	if len(f) == 0 {
		return ""
	}
	return f[0]
}

func TestC17(t *testing.T) {
	st := harness.NewStats("C17")
	defer st.Write()
	defer harness.FlushFailure("C17/placement")
	rapid.Check(t, func(t *rapid.T) {
		c := genC17(t)
		raw, _ := json.Marshal(c)
		msg, labels, nt := runC17(c)
		var sample interface{}
		if nt {
			sample = summarizeC17(c)
		}
		st.Case(harness.Fingerprint("c17"+string(raw)), nt, labels, sample)
		if msg != "" {
			harness.RecordFailure(&harness.Failure{Property: "C17", Check: "C17/placement", Message: msg, Size: len(raw), Case: raw, Trace: summarizeC17(c)})
			t.Fatalf("%s\n%s", msg, strings.Join(summarizeC17(c), "\n"))
		}
	})
}

func summarizeC17(c c17Case) []string {
	var out []string
	conf, err := configs.LoadSchedulerConfigFromByteArray([]byte(c.Conf))
	if err != nil {
		return []string{"(invalid configuration)"}
	}
	var walk func(q configs.QueueConfig, prefix string)
	walk = func(q configs.QueueConfig, prefix string) {
		p := strings.ToLower(q.Name)
		if prefix != "" {
			p = prefix + "." + p
		}
		kind := "leaf"
		if q.Parent || len(q.Queues) > 0 {
			kind = "parent"
		}
		out = append(out, fmt.Sprintf("queue %s (%s) submit=%q admin=%q", p, kind, q.SubmitACL, q.AdminACL))
		for _, ch := range q.Queues {
			walk(ch, p)
		}
	}
	walk(conf.Partitions[0].Queues[0], "")
	for i, r := range conf.Partitions[0].PlacementRules {
		b, _ := json.Marshal(r)
		out = append(out, fmt.Sprintf("rule %d: %s", i, b))
	}
	for _, a := range c.Apps {
		keys := make([]string, 0, len(a.Tags))
		for k := range a.Tags {
			keys = append(keys, k+"="+a.Tags[k])
		}
		sort.Strings(keys)
		out = append(out, fmt.Sprintf("submit %s user=%s groups=%v queue=%q tags=%v", a.App, a.User, a.Groups, a.Queue, keys))
	}
	return out
}

func TestC17Replay(t *testing.T) {
	path := os.Getenv("VERIF_REPLAY")
	if path == "" {
		t.Skip("no replay file")
	}
	f := loadFailure(t, path)
	if f.Check != "C17/placement" {
		t.Skipf("not a C17 replay: %s", f.Check)
	}
	var c c17Case
	mustUnmarshal(t, f.Case, &c)
	if msg, _, _ := runC17(c); msg != "" {
		t.Fatalf("REPLAY-FAIL %s: %s", f.Check, msg)
	}
}
