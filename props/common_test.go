package props

import (
	"encoding/json"
	"os"
	"testing"

	"verif/harness"
)

func loadFailure(t *testing.T, path string) *harness.Failure {
	b, err := os.ReadFile(path)
	if err != nil {
		t.Fatalf("cannot read replay %s: %v", path, err)
	}
	f := &harness.Failure{}
	if err := json.Unmarshal(b, f); err != nil {
		t.Fatalf("cannot parse replay %s: %v", path, err)
	}
	return f
}

func mustUnmarshal(t *testing.T, raw json.RawMessage, v interface{}) {
	if err := json.Unmarshal(raw, v); err != nil {
		t.Fatalf("bad case in replay: %v", err)
	}
}

func TestMain(m *testing.M) {
	harness.InitLogging()
	os.Exit(m.Run())
}
