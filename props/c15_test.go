package props

// C15 — configuration validation is sound: what it accepts is well formed and loadable.
//
// Generator: configurations that are valid by construction (harness.GenConf) with zero to three perturbations around
// the boundaries of the documented rules, rendered as YAML. For every document the validator accepts:
//   - an independent well-formedness predicate written from the property statement holds (own big integer quantity
//     parser, own tree walk);
//   - a new scheduler can be started with it and a running scheduler (other configuration, applications running)
//     accepts it as a reload, without panic;
//   - validating the same bytes again gives the same verdict (map iteration order differs between runs).
// Rejecting a well formed document is not a violation (soundness only).

import (
	"encoding/json"
	"fmt"
	"math/big"
	"os"
	"regexp"
	"strings"
	"testing"

	"pgregory.net/rapid"

	"github.com/apache/yunikorn-core/pkg/common/configs"

	"verif/harness"
)

type c15Case struct {
	YAML string   `json:"yaml"`
	Muts []string `json:"mutations"`
}

type bigRes map[string]*big.Int

func parseRes(m map[string]string) (bigRes, bool) {
	out := bigRes{}
	for k, v := range m {
		n, ok, _ := refParse(v, k == "vcore")
		if !ok {
			return nil, false
		}
		out[k] = n
	}
	return out, true
}

func (r bigRes) isZero() bool {
	for _, v := range r {
		if v.Sign() != 0 {
			return false
		}
	}
	return true
}

var (
	wfQueueName = regexp.MustCompile(`^[a-zA-Z0-9_:#/@-]{1,64}$`)
)

// wellFormed checks the documented hierarchy rules on an accepted (normalised) configuration; returns "" or the rule broken.
func wellFormed(c *configs.SchedulerConfig) string {
	for _, part := range c.Partitions {
		if len(part.Queues) != 1 || strings.ToLower(part.Queues[0].Name) != "root" {
			return "partition without a single root queue"
		}
		root := part.Queues[0]
		if len(root.Resources.Max) > 0 || len(root.Resources.Guaranteed) > 0 {
			return "root queue has resource limits"
		}
		type limCtx struct {
			res  map[string]bigRes
			apps map[string]uint64
		}
		var walk func(q configs.QueueConfig, path string, ancMax []bigRes, parentApps uint64, users, groups limCtx) (bigRes, string)
		walk = func(q configs.QueueConfig, path string, ancMax []bigRes, parentApps uint64, users, groups limCtx) (bigRes, string) {
			own, ok := parseRes(q.Resources.Max)
			if !ok {
				return nil, path + ": maximum is not a valid quantity"
			}
			guar, ok := parseRes(q.Resources.Guaranteed)
			if !ok {
				return nil, path + ": guaranteed is not a valid quantity"
			}
			// maximum within every ancestor's maximum that defines the type
			for k, v := range own {
				for _, a := range ancMax {
					if av, def := a[k]; def && v.Cmp(av) > 0 {
						return nil, fmt.Sprintf("%s: maximum %s=%s is above an ancestor's maximum %s", path, k, v, av)
					}
				}
			}
			// guaranteed within own maximum
			for k, v := range guar {
				if mv, def := own[k]; def && v.Cmp(mv) > 0 {
					return nil, fmt.Sprintf("%s: guaranteed %s=%s is above the maximum %s", path, k, v, mv)
				}
			}
			// max applications non increasing downwards
			if parentApps != 0 && (q.MaxApplications == 0 || q.MaxApplications > parentApps) {
				return nil, fmt.Sprintf("%s: max applications %d under a parent with %d", path, q.MaxApplications, parentApps)
			}
			// limits
			curUsers := limCtx{res: map[string]bigRes{}, apps: map[string]uint64{}}
			curGroups := limCtx{res: map[string]bigRes{}, apps: map[string]uint64{}}
			for k, v := range users.res {
				curUsers.res[k] = v
			}
			for k, v := range users.apps {
				curUsers.apps[k] = v
			}
			for k, v := range groups.res {
				curGroups.res[k] = v
			}
			for k, v := range groups.apps {
				curGroups.apps[k] = v
			}
			seenU, seenG := map[string]bool{}, map[string]bool{}
			for _, l := range q.Limits {
				lr, ok := parseRes(l.MaxResources)
				if !ok {
					return nil, path + ": limit " + l.Limit + " has an invalid quantity"
				}
				if q.MaxApplications != 0 && l.MaxApplications > q.MaxApplications {
					return nil, fmt.Sprintf("%s: limit %s allows %d applications, the queue %d", path, l.Limit, l.MaxApplications, q.MaxApplications)
				}
				if path != "root" {
					for k, v := range lr {
						if mv, def := own[k]; def && v.Cmp(mv) > 0 {
							return nil, fmt.Sprintf("%s: limit %s %s=%s is above the queue maximum %s", path, l.Limit, k, v, mv)
						}
					}
				}
				check := func(kind, name string, anc limCtx, cur limCtx, seen map[string]bool) string {
					if seen[name] {
						return fmt.Sprintf("%s: %s %s has two limits", path, kind, name)
					}
					seen[name] = true
					ref, has := anc.res[name]
					refApps, hasApps := anc.apps[name]
					if !has && name != "*" {
						ref, has = anc.res["*"]
					}
					if !hasApps && name != "*" {
						refApps, hasApps = anc.apps["*"]
					}
					if has {
						for k, v := range lr {
							if av, def := ref[k]; def && v.Cmp(av) > 0 {
								return fmt.Sprintf("%s: %s %s limit %s=%s is above the limit %s of the same %s (or the wildcard) on an ancestor", path, kind, name, k, v, av, kind)
							}
						}
					}
					if hasApps && refApps != 0 && (l.MaxApplications == 0 || l.MaxApplications > refApps) {
						return fmt.Sprintf("%s: %s %s may run %d applications, an ancestor limits the same %s (or the wildcard) to %d", path, kind, name, l.MaxApplications, kind, refApps)
					}
					// what the children see: the tighter of this and the ancestor's named limit, per type
					eff := bigRes{}
					for k, v := range lr {
						eff[k] = v
					}
					if own, named := anc.res[name]; named {
						for k, v := range own {
							if cv, def := eff[k]; !def || v.Cmp(cv) < 0 {
								eff[k] = v
							}
						}
					}
					cur.res[name] = eff
					cur.apps[name] = l.MaxApplications
					return ""
				}
				for _, u := range l.Users {
					if msg := check("user", u, users, curUsers, seenU); msg != "" {
						return nil, msg
					}
				}
				for _, g := range l.Groups {
					if msg := check("group", g, groups, curGroups, seenG); msg != "" {
						return nil, msg
					}
				}
			}
			// children: unique (case insensitive) valid names
			names := map[string]bool{}
			sum := bigRes{}
			effAnc := append(append([]bigRes{}, ancMax...), own)
			for _, ch := range q.Queues {
				if !wfQueueName.MatchString(ch.Name) {
					return nil, fmt.Sprintf("%s: child name %q is not a valid queue name", path, ch.Name)
				}
				if names[strings.ToLower(ch.Name)] {
					return nil, fmt.Sprintf("%s: two children are named %q (names are case insensitive)", path, ch.Name)
				}
				names[strings.ToLower(ch.Name)] = true
				up, msg := walk(ch, path+"."+strings.ToLower(ch.Name), effAnc, q.MaxApplications, curUsers, curGroups)
				if msg != "" {
					return nil, msg
				}
				for k, v := range up {
					if sum[k] == nil {
						sum[k] = new(big.Int)
					}
					sum[k].Add(sum[k], v)
				}
			}
			// children's guaranteed sum within this queue's guaranteed and (effective) maximum
			for k, v := range sum {
				if gv, def := guar[k]; def && v.Cmp(gv) > 0 {
					return nil, fmt.Sprintf("%s: children guarantee %s=%s together, the queue guarantees %s", path, k, v, gv)
				}
				for _, a := range effAnc {
					if av, def := a[k]; def && v.Cmp(av) > 0 {
						return nil, fmt.Sprintf("%s: children guarantee %s=%s together, above the maximum %s in force for the queue", path, k, v, av)
					}
				}
			}
			if guar.isZero() {
				return sum, ""
			}
			return guar, ""
		}
		empty := limCtx{res: map[string]bigRes{}, apps: map[string]uint64{}}
		if _, msg := walk(root, "root", nil, 0, empty, empty); msg != "" {
			return msg
		}
	}
	return ""
}

// ---------------------------------------------------------------------------------------------- generator

func walkQ(q *configs.QueueConfig, f func(q *configs.QueueConfig, depth int), depth int) {
	f(q, depth)
	for i := range q.Queues {
		walkQ(&q.Queues[i], f, depth+1)
	}
}

var c15Excluded, c15ExcludedRoot int

// buildableRule mirrors what the placement manager demands when it builds a rule (known names, a value for fixed and
// tag rules, no parent for a fixed rule with a qualified queue name, valid queue name parts).
func buildableRule(r configs.PlacementRule) bool {
	switch strings.ToLower(r.Name) {
	case "user", "provided":
	case "tag":
		if r.Value == "" {
			return false
		}
	case "fixed":
		if r.Value == "" {
			return false
		}
		for _, part := range strings.Split(strings.ToLower(r.Value), ".") {
			if !wfQueueName.MatchString(part) {
				return false
			}
		}
		if strings.HasPrefix(strings.ToLower(r.Value), "root") && r.Parent != nil {
			return false
		}
	default:
		return false
	}
	if r.Parent != nil {
		return buildableRule(*r.Parent)
	}
	return true
}

func genC15(t *rapid.T) c15Case {
	conf := harness.GenConf(t, harness.ConfOpts{MaxDepth: 3, Limits: true, MaxApps: true, Quotas: true, Templates: rapid.Bool().Draw(t, "templates"), TightQuota: rapid.Bool().Draw(t, "tight")})
	root := &conf.Partitions[0].Queues[0]
	var qs []*configs.QueueConfig
	var depths []int
	collect := func() {
		qs, depths = nil, nil
		walkQ(root, func(q *configs.QueueConfig, d int) { qs = append(qs, q); depths = append(depths, d) }, 0)
	}
	collect()
	var muts []string
	n := rapid.IntRange(0, 3).Draw(t, "mutations")
	units := []string{"", "", "", "k", "M", "Ki"}
	val := func(label string, lo, hi int64, key string) string {
		v := rapid.Int64Range(lo, hi).Draw(t, label)
		if key == "vcore" {
			if rapid.Bool().Draw(t, label+"-milli") {
				return fmt.Sprintf("%dm", v)
			}
			return fmt.Sprintf("%d", v)
		}
		return fmt.Sprintf("%d%s", v, rapid.SampledFrom(units).Draw(t, label+"-unit"))
	}
	for i := 0; i < n; i++ {
		qi := rapid.IntRange(0, len(qs)-1).Draw(t, "mut-queue")
		q := qs[qi]
		kind := rapid.SampledFrom([]string{"max-up", "max-deep", "guar-up", "apps", "limit-res", "limit-apps", "name-case", "name-bad", "rule", "template", "root-res", "limit-order", "unit"}).Draw(t, "mut-kind")
		key := rapid.SampledFrom(harness.ResTypes).Draw(t, "mut-type")
		switch kind {
		case "max-up": // a maximum around / above the parent's
			if q.Resources.Max == nil {
				q.Resources.Max = map[string]string{}
			}
			q.Resources.Max[key] = val("max-up-v", 1, 60, key)
		case "max-deep": // a type the queue's parent does not define, set deep in the tree
			if depths[qi] >= 2 {
				if q.Resources.Max == nil {
					q.Resources.Max = map[string]string{}
				}
				q.Resources.Max[key] = val("max-deep-v", 20, 200, key)
			}
		case "guar-up":
			if q.Resources.Guaranteed == nil {
				q.Resources.Guaranteed = map[string]string{}
			}
			q.Resources.Guaranteed[key] = val("guar-up-v", 1, 60, key)
		case "apps":
			q.MaxApplications = rapid.Uint64Range(0, 6).Draw(t, "apps-v")
		case "limit-res":
			if len(q.Limits) > 0 {
				l := &q.Limits[rapid.IntRange(0, len(q.Limits)-1).Draw(t, "lim")]
				if l.MaxResources == nil {
					l.MaxResources = map[string]string{}
				}
				l.MaxResources[key] = val("limit-res-v", 0, 60, key)
			}
		case "limit-apps":
			if len(q.Limits) > 0 {
				l := &q.Limits[rapid.IntRange(0, len(q.Limits)-1).Draw(t, "lim")]
				l.MaxApplications = rapid.Uint64Range(0, 6).Draw(t, "limit-apps-v")
			}
		case "name-case": // a sibling that differs from another only in case
			if len(q.Queues) >= 1 {
				src := q.Queues[rapid.IntRange(0, len(q.Queues)-1).Draw(t, "sib")]
				if src.Name == "" {
					break
				}
				cp := configs.QueueConfig{Name: strings.ToUpper(src.Name[:1]) + src.Name[1:]}
				if rapid.Bool().Draw(t, "case-all") {
					cp.Name = strings.ToUpper(src.Name)
				}
				cp.Resources.Max = map[string]string{"memory": "900"}
				q.Queues = append(q.Queues, cp)
				q.Parent = true
			}
		case "name-bad":
			if len(q.Queues) >= 1 {
				name := rapid.SampledFrom([]string{"a.b", "a b", "", "root", "q*", strings.Repeat("x", 65), "ok-name_1"}).Draw(t, "bad-name")
				if name == "root" && harness.Excluded("child-queue-named-root") {
					c15ExcludedRoot++
					break
				}
				q.Queues[0].Name = name
			}
		case "rule":
			rules := &conf.Partitions[0].PlacementRules
			leaves, _ := harness.LeafPaths(conf)
			r := configs.PlacementRule{Name: rapid.SampledFrom([]string{"fixed", "user", "tag", "provided", "nosuchrule", "fixed", "9bad"}).Draw(t, "rule-name"), Create: rapid.Bool().Draw(t, "rule-create")}
			if r.Name == "fixed" {
				r.Value = rapid.SampledFrom(append(append([]string{}, leaves...), "root.nosuch", "nosuch", "root", "root.dyn.new", "ROOT.A")).Draw(t, "rule-value")
			}
			if r.Name == "tag" {
				r.Value = "namespace"
			}
			if rapid.Bool().Draw(t, "rule-parent") {
				r.Parent = &configs.PlacementRule{Name: rapid.SampledFrom([]string{"fixed", "user", "nosuchrule"}).Draw(t, "parent-name"), Value: rapid.SampledFrom(append(append([]string{}, leaves...), "root", "root.dyn", "root.nosuch")).Draw(t, "parent-value"), Create: rapid.Bool().Draw(t, "parent-create")}
			}
			if rapid.Bool().Draw(t, "rule-filter") {
				r.Filter = configs.Filter{Type: rapid.SampledFrom([]string{"allow", "deny", "", "maybe"}).Draw(t, "filter-type"), Users: []string{rapid.SampledFrom([]string{"u1", "u.*", "(unclosed", "*"}).Draw(t, "filter-user")}}
			}
			if !buildableRule(r) && harness.Excluded("unbuildable-placement-rule") {
				// listed known finding: the validator accepts rules the placement manager cannot build
				c15Excluded++
				break
			}
			*rules = append([]configs.PlacementRule{r}, *rules...)
		case "template":
			q.Parent = true
			q.ChildTemplate.Resources.Max = map[string]string{key: rapid.SampledFrom([]string{"5", "500", "-1", "abc", "1Zi", "0"}).Draw(t, "tmpl-max")}
			if rapid.Bool().Draw(t, "tmpl-guar") {
				q.ChildTemplate.Resources.Guaranteed = map[string]string{key: rapid.SampledFrom([]string{"5", "900", "x"}).Draw(t, "tmpl-guar-v")}
			}
		case "root-res":
			root.Resources.Max = map[string]string{key: "100"}
		case "limit-order":
			if len(q.Limits) >= 2 {
				q.Limits[0], q.Limits[len(q.Limits)-1] = q.Limits[len(q.Limits)-1], q.Limits[0]
			}
		case "unit":
			for k, v := range q.Resources.Max {
				if k != "vcore" && !strings.HasSuffix(v, "k") {
					q.Resources.Max[k] = v + rapid.SampledFrom([]string{"k", "Ki", "x", " ", "M"}).Draw(t, "unit-suffix")
				}
			}
		}
		muts = append(muts, kind)
		collect()
	}
	return c15Case{YAML: harness.MarshalConf(conf), Muts: muts}
}

const c15Base = `
partitions:
  - name: default
    placementrules:
      - name: provided
        create: true
    queues:
      - name: root
        submitacl: "*"
        queues:
          - name: a
            resources:
              max: {memory: 40, vcore: 40}
          - name: b
            parent: true
            queues:
              - name: c
`

func runC15(c c15Case) (msg string, labels []string, nontrivial bool) {
	lab := map[string]bool{}
	for _, m := range c.Muts {
		lab["mut-"+m] = true
	}
	conf, err := configs.LoadSchedulerConfigFromByteArray([]byte(c.YAML))
	for i := 0; i < 4; i++ {
		_, err2 := configs.LoadSchedulerConfigFromByteArray([]byte(c.YAML))
		if (err == nil) != (err2 == nil) {
			return fmt.Sprintf("validation is not deterministic: first verdict %v, verdict of run %d %v", err, i+2, err2), keys(lab), nontrivial
		}
	}
	if err != nil {
		lab["rejected"] = true
		for _, m := range c.Muts {
			lab["rejected-after-"+m] = true
		}
		return "", keys(lab), false
	}
	lab["accepted"] = true
	for _, m := range c.Muts {
		lab["accepted-after-"+m] = true
	}
	if len(conf.Partitions) == 0 || len(conf.Partitions[0].Queues) == 0 {
		// a document without partitions (the empty document) is accepted by the validator: nothing to judge, the predicates
		// below are about single partition documents (listed assumption)
		lab["accepted-without-partition"] = true
		return "", keys(lab), false
	}
	// documents that carry the trigger of a listed finding are not judged (the structured generator avoids them by
	// construction, the byte level target cannot)
	if harness.Excluded("unbuildable-placement-rule") {
		for _, p := range conf.Partitions {
			for _, r := range p.PlacementRules {
				if !buildableRule(r) {
					lab["skipped-listed-finding-unbuildable-placement-rule"] = true
					return "", keys(lab), false
				}
			}
		}
	}
	if harness.Excluded("child-queue-named-root") {
		named := false
		walkQ(&conf.Partitions[0].Queues[0], func(q *configs.QueueConfig, d int) {
			if d > 0 && strings.EqualFold(q.Name, "root") {
				named = true
			}
		}, 0)
		if named {
			lab["skipped-listed-finding-child-queue-named-root"] = true
			return "", keys(lab), false
		}
	}
	depth, sparse := 0, 0
	walkQ(&conf.Partitions[0].Queues[0], func(q *configs.QueueConfig, d int) {
		if d > depth {
			depth = d
		}
		if n := len(q.Resources.Max); n > 0 && n < len(harness.ResTypes) {
			sparse++
		}
	}, 0)
	nontrivial = depth >= 3 && sparse >= 2 || len(conf.Partitions[0].PlacementRules) >= 2
	if rule := wellFormed(conf); rule != "" {
		return "validation accepted a configuration that breaks a documented hierarchy rule: " + rule, keys(lab), nontrivial
	}
	// loadable into a new scheduler
	if why := harness.TryStart(c.YAML); why != "" {
		return "validation accepted a configuration a new scheduler cannot be started with: " + why, keys(lab), nontrivial
	}
	// loadable into a running scheduler
	if why := harness.TryReload(c15Base, c.YAML); why != "" {
		return "validation accepted a configuration a running scheduler cannot load: " + why, keys(lab), nontrivial
	}
	return "", keys(lab), nontrivial
}

func TestC15(t *testing.T) {
	st := harness.NewStats("C15")
	defer st.Write()
	defer harness.FlushFailure("C15/validate")
	rapid.Check(t, func(t *rapid.T) {
		c := genC15(t)
		raw, _ := json.Marshal(c)
		msg, labels, nt := runC15(c)
		var sample interface{}
		if nt {
			sample = map[string]interface{}{"mutations": c.Muts, "yaml": c.YAML}
		}
		st.Case(harness.Fingerprint("c15"+c.YAML), nt, labels, sample)
		for ; c15Excluded > 0; c15Excluded-- {
			st.Exclude("unbuildable-placement-rule")
		}
		for ; c15ExcludedRoot > 0; c15ExcludedRoot-- {
			st.Exclude("child-queue-named-root")
		}
		if msg != "" {
			harness.RecordFailure(&harness.Failure{Property: "C15", Check: "C15/validate", Message: msg, Size: len(raw), Case: raw, Trace: strings.Split(c.YAML, "\n")})
			t.Fatalf("%s\n%s", msg, c.YAML)
		}
	})
}

// FuzzC15: raw bytes as configuration (thorough tier); same oracle.
func FuzzC15(f *testing.F) {
	f.Add([]byte(c15Base))
	f.Add([]byte(configs.DefaultSchedulerConfig))
	f.Add([]byte("partitions:\n  - name: default\n    queues:\n      - name: root\n        queues:\n          - name: A\n            resources:\n              max: {memory: 1Gi}\n            childtemplate:\n              resources:\n                max: {memory: 2Gi}\n            parent: true\n"))
	// a document whose only partition has another name, and one with two partitions: loading them into a running
	// scheduler removes / adds a partition
	f.Add([]byte("partitions:\n  - name: other\n    queues:\n      - name: root\n        submitacl: \"*\"\n        queues:\n          - name: a\n"))
	f.Add([]byte("partitions:\n  - name: default\n    queues:\n      - name: root\n        queues:\n          - name: a\n  - name: second\n    queues:\n      - name: root\n        queues:\n          - name: b\n"))
	f.Fuzz(func(t *testing.T, data []byte) {
		c := c15Case{YAML: string(data)}
		if msg, _, _ := runC15(c); msg != "" {
			raw, _ := json.Marshal(c)
			harness.RecordFailure(&harness.Failure{Property: "C15", Check: "C15/validate", Message: msg, Size: len(raw), Case: raw})
			harness.FlushFailure("C15/validate")
			t.Fatalf("%s\n%s", msg, c.YAML)
		}
	})
}

func TestC15Replay(t *testing.T) {
	path := os.Getenv("VERIF_REPLAY")
	if path == "" {
		t.Skip("no replay file")
	}
	f := loadFailure(t, path)
	if f.Check != "C15/validate" {
		t.Skipf("not a C15 replay: %s", f.Check)
	}
	var c c15Case
	mustUnmarshal(t, f.Case, &c)
	if msg, _, _ := runC15(c); msg != "" {
		t.Fatalf("REPLAY-FAIL %s: %s", f.Check, msg)
	}
}
