package props

// C13 byte level: any bytes a protobuf decoder turns into an AllocationRequest / ApplicationRequest / NodeRequest are
// sent to a small busy world (placeholder swap in flight, reservation, pending asks). Oracle inside the target: no
// panic, no hang, and the accounting invariants (C03 oracle) still hold afterwards and after further cycles.

import (
	"encoding/json"
	"os"
	"strings"
	"testing"

	"google.golang.org/protobuf/encoding/protojson"
	"google.golang.org/protobuf/proto"

	"github.com/apache/yunikorn-scheduler-interface/lib/go/si"

	"verif/harness"
)

const c13Conf = `
partitions:
  - name: default
    placementrules:
      - name: provided
        create: true
    queues:
      - name: root
        submitacl: "*"
        queues:
          - name: a
            resources:
              max: {memory: 40, vcore: 40}
            limits:
              - limit: l1
                users: [u1]
                maxapplications: 3
                maxresources: {memory: 30}
          - name: b
            parent: true
            queues:
              - name: c
`

type c13FuzzCase struct {
	Style string `json:"style"`
	Raw   string `json:"raw"` // protojson of the decoded request
}

func c13Prefix() []harness.Op {
	r := func(m, v int64) harness.Res { return harness.Res{"memory": m, "vcore": v} }
	return []harness.Op{
		{Kind: harness.OpAddNode, Node: "node-1", Res: r(10, 10)},
		{Kind: harness.OpAddNode, Node: "node-2", Res: r(10, 10)},
		{Kind: harness.OpAddApp, App: "app-1", Queue: "root.a", User: "u1", Groups: []string{"g1"}, PhAsk: r(4, 4), Style: "Soft"},
		{Kind: harness.OpAddApp, App: "app-2", Queue: "root.b.c", User: "u2", Groups: []string{"g2"}},
		{Kind: harness.OpAddAsk, App: "app-1", Key: "ph-1", Res: r(4, 4), Placeholder: true, TaskGroup: "tg-1", AllowSelf: true},
		{Kind: harness.OpAddAsk, App: "app-2", Key: "ask-1", Res: r(5, 5), AllowSelf: true},
		{Kind: harness.OpSchedule}, {Kind: harness.OpSchedule},
		{Kind: harness.OpAddAsk, App: "app-1", Key: "real-1", Res: r(4, 4), TaskGroup: "tg-1", AllowSelf: true},
		{Kind: harness.OpSchedule}, // swap in flight
		{Kind: harness.OpAddAsk, App: "app-2", Key: "ask-2", Res: r(9, 9), AllowSelf: true, AgeSec: 3600},
		{Kind: harness.OpSchedule}, // reservation
		{Kind: harness.OpForeign, Key: "foreign-1", Node: "node-2", Res: r(1, 1)},
	}
}

func decodeC13(data []byte) (c13FuzzCase, bool) {
	if len(data) < 2 {
		return c13FuzzCase{}, false
	}
	var m proto.Message
	style := ""
	switch data[0] % 3 {
	case 0:
		m, style = &si.AllocationRequest{}, "alloc"
	case 1:
		m, style = &si.ApplicationRequest{}, "app"
	default:
		m, style = &si.NodeRequest{}, "node"
	}
	if err := proto.Unmarshal(data[1:], m); err != nil {
		return c13FuzzCase{}, false
	}
	// "no nil list elements or nil map values": a protobuf decoder never produces them
	b, err := protojson.Marshal(m)
	if err != nil {
		return c13FuzzCase{}, false // invalid UTF-8 in a string field: cannot be expressed in the replay format
	}
	return c13FuzzCase{Style: style, Raw: string(b)}, true
}

func FuzzC13(f *testing.F) {
	add := func(kind byte, m proto.Message) {
		b, err := proto.Marshal(m)
		if err == nil {
			f.Add(append([]byte{kind}, b...))
		}
	}
	res := harness.Res{"memory": 2, "vcore": 2}.SI()
	add(0, &si.AllocationRequest{RmID: harness.RmID, Allocations: []*si.Allocation{{AllocationKey: "x-1", ApplicationID: "app-2", ResourcePerAlloc: res}}})
	add(0, &si.AllocationRequest{RmID: harness.RmID, Allocations: []*si.Allocation{{AllocationKey: "x-2", ApplicationID: "app-1", ResourcePerAlloc: res, NodeID: "node-1", Placeholder: true, TaskGroupName: "tg-1"}}})
	add(0, &si.AllocationRequest{RmID: harness.RmID, Allocations: []*si.Allocation{{AllocationKey: "real-1", ApplicationID: "app-1", ResourcePerAlloc: harness.Res{"memory": 6}.SI(), TaskGroupName: "tg-1"}}})
	for _, tt := range []si.TerminationType{0, 1, 2, 3, 4, 5} {
		for _, key := range []string{"ph-1", "real-1", "ask-1", "ask-2", "", "nope"} {
			add(0, &si.AllocationRequest{RmID: harness.RmID, Releases: &si.AllocationReleasesRequest{AllocationsToRelease: []*si.AllocationRelease{{ApplicationID: "app-1", AllocationKey: key, TerminationType: tt}}}})
			add(0, &si.AllocationRequest{RmID: harness.RmID, Releases: &si.AllocationReleasesRequest{AllocationsToRelease: []*si.AllocationRelease{{ApplicationID: "app-2", AllocationKey: key, TerminationType: tt}}}})
		}
	}
	add(1, &si.ApplicationRequest{RmID: harness.RmID, New: []*si.AddApplicationRequest{{ApplicationID: "app-9", QueueName: "root.a", Ugi: &si.UserGroupInformation{User: "u1"}}}})
	add(1, &si.ApplicationRequest{RmID: harness.RmID, New: []*si.AddApplicationRequest{{ApplicationID: "app-1", QueueName: "root.b.c", Tags: map[string]string{"application.create.force": "true"}}}})
	add(1, &si.ApplicationRequest{RmID: harness.RmID, Remove: []*si.RemoveApplicationRequest{{ApplicationID: "app-1"}}})
	for _, act := range []si.NodeInfo_ActionFromRM{0, 1, 2, 3, 4, 5, 6} {
		add(2, &si.NodeRequest{RmID: harness.RmID, Nodes: []*si.NodeInfo{{NodeID: "node-1", Action: act, SchedulableResource: res}}})
		add(2, &si.NodeRequest{RmID: harness.RmID, Nodes: []*si.NodeInfo{{NodeID: "node-7", Action: act}}})
	}
	f.Fuzz(func(t *testing.T, data []byte) {
		c, ok := decodeC13(data)
		if !ok {
			return
		}
		if msg := harness.FuzzStep(c13Conf, c13Prefix(), c.Style, c.Raw); msg != "" {
			raw, _ := json.Marshal(c)
			harness.RecordFailure(&harness.Failure{Property: "C13", Check: "C13/fuzz", Message: msg, Size: len(raw), Case: raw})
			harness.FlushFailure("C13/fuzz")
			t.Fatalf("%s\nrequest (%s): %s", msg, c.Style, c.Raw)
		}
	})
}

// TestC13FuzzReplay re-executes a recorded failing fuzz case.
func TestC13FuzzReplay(t *testing.T) {
	path := os.Getenv("VERIF_REPLAY")
	if path == "" {
		t.Skip("no replay file")
	}
	f := loadFailure(t, path)
	if f.Check != "C13/fuzz" {
		t.Skipf("not a C13/fuzz replay: %s", f.Check)
	}
	var c c13FuzzCase
	mustUnmarshal(t, f.Case, &c)
	if msg := harness.FuzzStep(c13Conf, c13Prefix(), c.Style, c.Raw); msg != "" {
		t.Fatalf("REPLAY-FAIL %s: %s", f.Check, strings.SplitN(msg, "\n", 2)[0])
	}
}

// TestC13FuzzSeeds runs the seed corpus of the fuzz target through its oracle (quick tier: no mutation).
func TestC13FuzzSeeds(t *testing.T) {
	if msg := harness.FuzzStep(c13Conf, c13Prefix(), "alloc", `{"rmID":"rm-1"}`); msg != "" {
		t.Fatalf("%s", msg)
	}
}
