package props

// C14 — concurrent operation. The real asynchronous stack (scheduling loop, three RM event handler goroutines, RM proxy,
// timers, quota preemption loop) is started through the entry point; several client goroutines send generated request
// scripts at the same time, reader goroutines call the REST DAO builders and getters, configuration reloads arrive in
// between, the shim confirms releases from its own goroutine. The binary is built with the race detector, the lock
// wrappers yield at a seeded rate (build tagged hook) and the lock tracker (go-deadlock) is switched on. Oracle: no race
// report, no deadlock report, every request returns, the system settles, the quiescent oracles of C01/C03/C05/C09 hold
// on the final state and everything returns to zero after all applications were removed.

import (
	"encoding/json"
	"fmt"
	"os"
	"runtime"
	"strings"
	"sync/atomic"
	"testing"

	"pgregory.net/rapid"

	"verif/harness"
)

type c14Case struct {
	harness.AsyncCase
	YieldEvery int `json:"yield_every"`
}

var c14Excluded, c14ExcludedSwap int

const swapVsNodeRemovalShape = "swap-confirm-vs-node-removal"

func genC14(t *rapid.T) c14Case {
	conf := harness.GenConf(t, harness.ConfOpts{MaxDepth: 2, Limits: true, MaxApps: true, Quotas: true, Templates: true, FifoOnly: true, Preemption: rapid.Bool().Draw(t, "preemption"), QuotaPreempt: true})
	c := c14Case{YieldEvery: rapid.SampledFrom([]int{0, 3, 7, 31}).Draw(t, "yield-every")}
	c.Conf = harness.MarshalConf(conf)
	leaves, _ := harness.LeafPaths(conf)
	var reloads []string
	baseLim := harness.LimitsOf(conf)
	for i := 0; i < 3; i++ {
		cand := harness.MutateConf(t, conf, conf)
		if harness.Excluded(harness.GroupUsageLostShape) {
			// listed known finding (C05): a reload that drops a group limit loses group usage, sequentially. The reloads of a
			// run arrive in any order: every variant keeps the group limits of the base configuration (by construction)
			for try := 0; try < 6 && len(harness.DroppedGroupLimits(baseLim, harness.LimitsOf(cand)))+len(harness.DroppedGroupLimits(harness.LimitsOf(cand), baseLim)) > 0; try++ {
				c14Excluded++
				if try == 5 {
					cand = harness.CloneConf(conf)
					break
				}
				cand = harness.MutateConf(t, conf, conf)
			}
		}
		reloads = append(reloads, harness.MarshalConf(cand))
	}
	nNodes := rapid.IntRange(2, 5).Draw(t, "nodes")
	for i := 0; i < nNodes; i++ {
		c.Nodes = append(c.Nodes, harness.AsyncOp{Kind: "addnode", Node: fmt.Sprintf("node-%d", i), Res: harness.Res{"memory": rapid.Int64Range(8, 30).Draw(t, "mem"), "vcore": rapid.Int64Range(8, 30).Draw(t, "cpu")}})
	}
	// listed finding swap-confirm-vs-node-removal: a case has gang applications or node removals, not both
	gangAllowed, rmnodeAllowed := true, true
	if harness.Excluded(swapVsNodeRemovalShape) {
		if rapid.Bool().Draw(t, "gang-or-node-removal") {
			rmnodeAllowed = false
		} else {
			gangAllowed = false
		}
		c14ExcludedSwap++
	}
	c.Readers = rapid.IntRange(1, 3).Draw(t, "readers")
	nClients := rapid.IntRange(3, 6).Draw(t, "clients")
	for ci := 0; ci < nClients; ci++ {
		var script []harness.AsyncOp
		nApps := rapid.IntRange(1, 4).Draw(t, "apps")
		type appInfo struct {
			id   string
			gang bool
			keys []string
		}
		var apps []*appInfo
		seq := 0
		steps := rapid.IntRange(15, 60).Draw(t, "steps")
		for s := 0; s < steps; s++ {
			k := rapid.IntRange(0, 19).Draw(t, "kind")
			switch {
			case (k <= 2 && len(apps) < nApps) || len(apps) == 0:
				a := &appInfo{id: fmt.Sprintf("app-%d-%d", ci, len(apps)), gang: rapid.IntRange(0, 2).Draw(t, "gang") == 0 && gangAllowed}
				apps = append(apps, a)
				op := harness.AsyncOp{Kind: "addapp", App: a.id, Queue: rapid.SampledFrom(leaves).Draw(t, "queue"), User: rapid.SampledFrom(harness.Users).Draw(t, "user")}
				if a.gang {
					op.PhAsk = harness.Res{"memory": 4, "vcore": 4}
				}
				script = append(script, op)
			case k <= 11:
				a := apps[rapid.IntRange(0, len(apps)-1).Draw(t, "app")]
				seq++
				key := fmt.Sprintf("ask-%d-%d", ci, seq)
				a.keys = append(a.keys, key)
				op := harness.AsyncOp{Kind: "ask", App: a.id, Key: key, Prio: int32(rapid.IntRange(0, 3).Draw(t, "prio")), Other: rapid.Bool().Draw(t, "preempt-other"),
					Res: harness.Res{"memory": rapid.Int64Range(1, 6).Draw(t, "ask-mem"), "vcore": rapid.Int64Range(1, 6).Draw(t, "ask-cpu")}}
				if a.gang {
					op.TG = "tg-1"
					op.Res = harness.Res{"memory": 2, "vcore": 2}
					op.Ph = rapid.Bool().Draw(t, "placeholder")
				}
				script = append(script, op)
			case k <= 14:
				a := apps[rapid.IntRange(0, len(apps)-1).Draw(t, "app")]
				if len(a.keys) > 0 {
					script = append(script, harness.AsyncOp{Kind: "release", App: a.id, Key: a.keys[rapid.IntRange(0, len(a.keys)-1).Draw(t, "key")]})
				}
			case k == 15:
				script = append(script, harness.AsyncOp{Kind: "reload", Conf: rapid.SampledFrom(reloads).Draw(t, "reload")})
			case k == 16 && ci == 0:
				n := fmt.Sprintf("node-%d", rapid.IntRange(0, nNodes-1).Draw(t, "node"))
				kind := rapid.SampledFrom([]string{"updnode", "drain", "undrain", "rmnode", "addnode"}).Draw(t, "node-op")
				if kind == "rmnode" && !rmnodeAllowed {
					kind = "drain"
				}
				script = append(script, harness.AsyncOp{Kind: kind, Node: n, Res: harness.Res{"memory": rapid.Int64Range(6, 30).Draw(t, "mem2"), "vcore": rapid.Int64Range(6, 30).Draw(t, "cpu2")}})
			case k == 17:
				a := apps[rapid.IntRange(0, len(apps)-1).Draw(t, "app")]
				script = append(script, harness.AsyncOp{Kind: "rmapp", App: a.id})
			default:
				script = append(script, harness.AsyncOp{Kind: "pause"})
			}
		}
		c.Clients = append(c.Clients, script)
	}
	return c
}

func runC14(c c14Case) (msg string, labels []string, nontrivial bool, problem string) {
	var counter atomic.Int64
	var yield func()
	if c.YieldEvery > 0 {
		n := int64(c.YieldEvery)
		yield = func() {
			if counter.Add(1)%n == 0 {
				runtime.Gosched()
			}
		}
	}
	res := harness.RunAsync(c.AsyncCase, yield)
	lab := map[string]bool{}
	if res.Swaps > 0 {
		lab["placeholder-swaps"] = true
	}
	if res.Preempted > 0 {
		lab["preemptions"] = true
	}
	if res.Reloads > 0 {
		lab["reloads"] = true
	}
	if res.Allocs > 0 {
		lab["allocations"] = true
	}
	if res.KnownLockReports > 0 {
		lab["lock-order-report-of-listed-finding"] = true
	}
	nontrivial = res.Ops >= 60 && res.Allocs >= 5 && (res.Reloads > 0 || res.Swaps > 0)
	if len(res.Violations) > 0 {
		var out []string
		for i, v := range res.Violations {
			if i < 6 || strings.HasPrefix(v, "history") {
				out = append(out, v)
			}
		}
		return strings.Join(out, "\n"), keys(lab), nontrivial, res.Problem
	}
	return "", keys(lab), nontrivial, res.Problem
}

func TestC14(t *testing.T) {
	st := harness.NewStats("C14")
	defer st.Write()
	defer harness.FlushFailure("C14/async")
	rapid.Check(t, func(t *rapid.T) {
		c := genC14(t)
		raw, _ := json.Marshal(c)
		msg, labels, nt, problem := runC14(c)
		if problem != "" {
			st.Label("infrastructure-problem", 1)
			fmt.Fprintf(os.Stderr, "C14 inconclusive run: %s\n", strings.SplitN(problem, "\n", 2)[0])
		}
		ops := 0
		for _, s := range c.Clients {
			ops += len(s)
		}
		var sample interface{}
		if nt {
			sample = map[string]interface{}{"clients": len(c.Clients), "readers": c.Readers, "requests": ops, "yield_every": c.YieldEvery, "first_client_script": truncateOps(c.Clients[0], 25)}
		}
		st.Case(harness.Fingerprint(string(raw)), nt, labels, sample)
		st.AddSteps(ops, 0)
		for ; c14Excluded > 0; c14Excluded-- {
			st.Exclude(harness.GroupUsageLostShape)
		}
		for ; c14ExcludedSwap > 0; c14ExcludedSwap-- {
			st.Exclude(swapVsNodeRemovalShape)
		}
		if msg != "" {
			harness.RecordFailure(&harness.Failure{Property: "C14", Check: "C14/async", Message: msg, Size: len(raw), Case: raw})
			t.Fatalf("%s", msg)
		}
	})
}

func truncateOps(ops []harness.AsyncOp, n int) []string {
	var out []string
	for i, o := range ops {
		if i >= n {
			out = append(out, "...")
			break
		}
		out = append(out, strings.TrimSpace(fmt.Sprintf("%s %s %s %s %v", o.Kind, o.Node, o.App, o.Key, o.Res)))
	}
	return out
}

// TestC14Replay re-runs a recorded case several times: failures of this check depend on the schedule.
func TestC14Replay(t *testing.T) {
	path := os.Getenv("VERIF_REPLAY")
	if path == "" {
		t.Skip("no replay file")
	}
	f := loadFailure(t, path)
	if f.Check != "C14/async" {
		t.Skipf("not a C14 replay: %s", f.Check)
	}
	var c c14Case
	mustUnmarshal(t, f.Case, &c)
	fails := 0
	const n = 5
	last := ""
	for i := 0; i < n; i++ {
		if msg, _, _, _ := runC14(c); msg != "" {
			fails++
			last = msg
		}
	}
	if fails > 0 {
		t.Fatalf("REPLAY-FAIL %s: failed %d of %d runs: %s", f.Check, fails, n, last)
	}
}

// TestC14MidCycle — the interleavings C14 is about, with the harness owning the schedule: the synchronous world runs
// scheduling cycles in which an RM request (release of the ask being allocated, removal of its application, removal or
// drain of the node it was placed on, release of a placeholder) is delivered exactly between the application level
// allocation and the partition level processing of its result (build tagged interleaving point in
// PartitionContext.allocate / tryPlaceholderAllocate). Oracles: the SI protocol model (C04) and the quiescent
// invariants of C01/C03/C05/C09 every step, exact zero after the drain epilogue.
func TestC14MidCycle(t *testing.T) {
	runWorld(t, worldCheck{prop: "C14", check: "C14/midcycle", also: []string{"C01=>C14", "C03=>C14", "C04=>C14", "C05=>C14", "C09=>C14"}, profile: func() *harness.Profile {
		p := mixedProfile()
		p.Name = "midcycle"
		p.Conf = harness.ConfOpts{MaxDepth: 2, Quotas: true, MaxApps: true, FifoOnly: true}
		p.Weights = harness.With(harness.BaseWeights(), map[string]int{harness.OpScheduleRace: 14, harness.OpSchedule: 18, harness.OpAddAsk: 22, harness.OpReportBound: 3,
			harness.OpRelease: 5, harness.OpReload: 0, harness.OpSetPred: 3})
		p.NodeLo, p.NodeHi, p.AskLo, p.AskHi = 4, 12, 1, 8
		p.ReqNodeProb, p.OldAskProb, p.GangProb = 15, 70, 25
		p.Epilogue = true
		return p
	}, nonTriv: func(w *harness.World) bool {
		n := 0
		for k, v := range w.Tags {
			if strings.HasPrefix(k, "race-") && v > 0 {
				n++
			}
		}
		return n >= 2
	}})
}
