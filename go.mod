module verif

go 1.25.0

require (
	github.com/apache/yunikorn-core v0.0.0
	github.com/apache/yunikorn-scheduler-interface v0.0.0-20260528033204-c474acff6d53
	go.uber.org/zap v1.27.1
	go.yaml.in/yaml/v3 v3.0.4
	google.golang.org/protobuf v1.36.11
	pgregory.net/rapid v1.3.0
)

require (
	github.com/Azure/go-ntlmssp v0.1.1 // indirect
	github.com/beorn7/perks v1.0.1 // indirect
	github.com/cespare/xxhash/v2 v2.3.0 // indirect
	github.com/go-asn1-ber/asn1-ber v1.5.8-0.20250403174932-29230038a667 // indirect
	github.com/go-ldap/ldap/v3 v3.4.13 // indirect
	github.com/google/btree v1.1.3 // indirect
	github.com/google/uuid v1.6.0 // indirect
	github.com/julienschmidt/httprouter v1.3.0 // indirect
	github.com/looplab/fsm v1.0.3 // indirect
	github.com/munnerz/goautoneg v0.0.0-20191010083416-a7dc8b61c822 // indirect
	github.com/petermattis/goid v0.0.0-20250813065127-a731cc31b4fe // indirect
	github.com/prometheus/client_golang v1.23.2 // indirect
	github.com/prometheus/client_model v0.6.2 // indirect
	github.com/prometheus/common v0.67.5 // indirect
	github.com/prometheus/procfs v0.16.1 // indirect
	github.com/sasha-s/go-deadlock v0.3.9 // indirect
	go.uber.org/multierr v1.10.0 // indirect
	go.yaml.in/yaml/v2 v2.4.3 // indirect
	golang.org/x/crypto v0.51.0 // indirect
	golang.org/x/exp v0.0.0-20260312153236-7ab1446f8b90 // indirect
	golang.org/x/net v0.54.0 // indirect
	golang.org/x/sys v0.45.0 // indirect
	golang.org/x/text v0.37.0 // indirect
	golang.org/x/time v0.15.0 // indirect
	google.golang.org/genproto/googleapis/rpc v0.0.0-20251202230838-ff82c1b0f217 // indirect
	google.golang.org/grpc v1.79.3 // indirect
)

replace github.com/apache/yunikorn-core => /repo

replace (
	golang.org/x/crypto => golang.org/x/crypto v0.52.0
	golang.org/x/net => golang.org/x/net v0.55.0
	golang.org/x/sys => golang.org/x/sys v0.45.0
	golang.org/x/text => golang.org/x/text v0.37.0
)
