module verif

go 1.25.0

require (
	github.com/apache/yunikorn-core v0.0.0
	go.uber.org/zap v1.27.1
	pgregory.net/rapid v1.3.0
)

require (
	github.com/apache/yunikorn-scheduler-interface v0.0.0-20260528033204-c474acff6d53 // indirect
	github.com/petermattis/goid v0.0.0-20250813065127-a731cc31b4fe // indirect
	github.com/sasha-s/go-deadlock v0.3.9 // indirect
	go.uber.org/multierr v1.10.0 // indirect
	golang.org/x/exp v0.0.0-20260312153236-7ab1446f8b90 // indirect
	golang.org/x/net v0.54.0 // indirect
	golang.org/x/sys v0.45.0 // indirect
	golang.org/x/text v0.37.0 // indirect
	golang.org/x/time v0.15.0 // indirect
	google.golang.org/genproto/googleapis/rpc v0.0.0-20251202230838-ff82c1b0f217 // indirect
	google.golang.org/grpc v1.79.3 // indirect
	google.golang.org/protobuf v1.36.11 // indirect
)

replace github.com/apache/yunikorn-core => /repo

replace (
	golang.org/x/crypto => golang.org/x/crypto v0.52.0
	golang.org/x/net => golang.org/x/net v0.55.0
	golang.org/x/sys => golang.org/x/sys v0.45.0
	golang.org/x/text => golang.org/x/text v0.37.0
)
