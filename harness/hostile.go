package harness

import (
	"encoding/json"
	"fmt"
	"sort"
	"strings"

	"google.golang.org/protobuf/encoding/protojson"
	"google.golang.org/protobuf/proto"
	"pgregory.net/rapid"

	"github.com/apache/yunikorn-core/pkg/common"
	"github.com/apache/yunikorn-core/pkg/rmproxy/rmevent"
	siCommon "github.com/apache/yunikorn-scheduler-interface/lib/go/common"
	"github.com/apache/yunikorn-scheduler-interface/lib/go/si"
)

// Hostile ops carry a raw SI request (protojson) that a protocol following shim would not send. Style names the
// message type (alloc, app, node); Term carries the expectation derived from how the message was built:
//
//	""                       only: no panic, no hang, the accounting invariants still hold
//	unchanged                the item is invalid: the observable state is exactly as before
//	unchanged+alloc:<key>    ... and a RejectedAllocation for <key> is sent
//	unchanged+app:<id>       ... and a RejectedApplication for <id> is sent
//	unchanged+node:<id>      ... and a RejectedNode for <id> is sent

// normalizeLikeProxy does what RMProxy.Update* does before handing a request to the scheduler.
func normalizeLikeProxy(msg proto.Message) (interface{}, bool) {
	switch r := msg.(type) {
	case *si.AllocationRequest:
		if r.RmID != RmID {
			return nil, false
		}
		for _, a := range r.Allocations {
			a.PartitionName = common.GetNormalizedPartitionName(a.PartitionName, r.RmID)
		}
		if r.Releases != nil {
			for _, rel := range r.Releases.AllocationsToRelease {
				rel.PartitionName = common.GetNormalizedPartitionName(rel.PartitionName, r.RmID)
			}
		}
		return &rmevent.RMUpdateAllocationEvent{Request: r}, true
	case *si.ApplicationRequest:
		if r.RmID != RmID {
			return nil, false
		}
		for _, a := range r.New {
			a.PartitionName = common.GetNormalizedPartitionName(a.PartitionName, r.RmID)
		}
		for _, a := range r.Remove {
			a.PartitionName = common.GetNormalizedPartitionName(a.PartitionName, r.RmID)
		}
		return &rmevent.RMUpdateApplicationEvent{Request: r}, true
	case *si.NodeRequest:
		if r.RmID != RmID {
			return nil, false
		}
		for _, n := range r.Nodes {
			if len(n.GetAttributes()) == 0 {
				n.Attributes = map[string]string{}
			}
			n.Attributes[siCommon.NodePartition] = common.GetNormalizedPartitionName(n.Attributes[siCommon.NodePartition], r.RmID)
		}
		return &rmevent.RMUpdateNodeEvent{Request: r}, true
	}
	return nil, false
}

func decodeHostile(style, raw string) proto.Message {
	var msg proto.Message
	switch style {
	case "alloc":
		msg = &si.AllocationRequest{}
	case "app":
		msg = &si.ApplicationRequest{}
	case "node":
		msg = &si.NodeRequest{}
	default:
		return nil
	}
	if err := protojson.Unmarshal([]byte(raw), msg); err != nil {
		return nil
	}
	return msg
}

func (w *World) dispatchHostile(op Op) {
	msg := decodeHostile(op.Style, op.Raw)
	if msg == nil {
		return
	}
	w.DispatchProto(msg)
}

// DispatchProto sends a decoded SI request through the same normalisation the RM proxy applies and into the handlers.
func (w *World) DispatchProto(msg proto.Message) {
	if ev, ok := normalizeLikeProxy(msg); ok {
		w.CC.VerifDispatch(ev)
	}
}

func rawOf(msg proto.Message) string {
	b, err := protojson.Marshal(msg)
	if err != nil {
		panic(err)
	}
	// protojson output is not stable across runs (random whitespace): normalise through encoding/json
	var v interface{}
	if err := json.Unmarshal(b, &v); err != nil {
		panic(err)
	}
	b, _ = json.Marshal(v)
	return string(b)
}

// hostileClass is one way of building a request no protocol following shim would send.
type hostileClass struct {
	name  string
	build func(t *rapid.T, w *World) (style string, msg proto.Message, expect string, ok bool)
}

func allocReq(a *si.Allocation) *si.AllocationRequest {
	return &si.AllocationRequest{RmID: RmID, Allocations: []*si.Allocation{a}}
}

func releaseReq(app, key, part string, term si.TerminationType) *si.AllocationRequest {
	return &si.AllocationRequest{RmID: RmID, Releases: &si.AllocationReleasesRequest{AllocationsToRelease: []*si.AllocationRelease{
		{PartitionName: part, ApplicationID: app, AllocationKey: key, TerminationType: term, Message: "hostile"}}}}
}

func (w *World) validAsk(t *rapid.T, app string) *si.Allocation {
	op := Op{Kind: OpAddAsk, App: app, Key: w.Shim.NextID("hask"), Res: genRes(t, "hres", 1, 5, true), AllowSelf: true}
	return op.siAlloc(false)
}

func anyTerm(t *rapid.T) si.TerminationType {
	return si.TerminationType(rapid.SampledFrom([]int32{0, 1, 2, 3, 4, 5, 17}).Draw(t, "term"))
}

var hostileClasses = []hostileClass{
	{"ask-unknown-app", func(t *rapid.T, w *World) (string, proto.Message, string, bool) {
		a := w.validAsk(t, "no-such-app")
		return "alloc", allocReq(a), "unchanged+alloc:" + a.AllocationKey, true
	}},
	{"ask-removed-app", func(t *rapid.T, w *World) (string, proto.Message, string, bool) {
		var gone []string
		for id, a := range w.Shim.Apps {
			if a.State == "removed" || a.State == "rejected" {
				gone = append(gone, id)
			}
		}
		if len(gone) == 0 {
			return "", nil, "", false
		}
		sort.Strings(gone)
		a := w.validAsk(t, pick(t, "gone-app", gone))
		return "alloc", allocReq(a), "unchanged+alloc:" + a.AllocationKey + "|app-gone:" + a.ApplicationID, true
	}},
	{"ask-bad-resource", func(t *rapid.T, w *World) (string, proto.Message, string, bool) {
		apps := w.Shim.AcceptedApps()
		if len(apps) == 0 {
			return "", nil, "", false
		}
		a := w.validAsk(t, pick(t, "app", apps))
		switch rapid.IntRange(0, 3).Draw(t, "bad-res") {
		case 0:
			a.ResourcePerAlloc = nil
		case 1:
			a.ResourcePerAlloc = &si.Resource{}
		case 2:
			a.ResourcePerAlloc = Res{"memory": 0, "vcore": 0}.SI()
		default:
			a.ResourcePerAlloc = Res{"memory": -rapid.Int64Range(1, 9).Draw(t, "neg"), "vcore": 1}.SI()
		}
		if pct(t, "bound", 30) && len(w.Shim.LiveNodes()) > 0 {
			a.NodeID = pick(t, "node", w.Shim.LiveNodes())
		}
		return "alloc", allocReq(a), "unchanged+alloc:" + a.AllocationKey, true
	}},
	{"ask-unknown-partition", func(t *rapid.T, w *World) (string, proto.Message, string, bool) {
		apps := w.Shim.AcceptedApps()
		if len(apps) == 0 {
			return "", nil, "", false
		}
		a := w.validAsk(t, pick(t, "app", apps))
		a.PartitionName = "nosuch"
		return "alloc", allocReq(a), "unchanged+alloc:" + a.AllocationKey, true
	}},
	{"bound-on-unknown-node", func(t *rapid.T, w *World) (string, proto.Message, string, bool) {
		apps := w.Shim.AcceptedApps()
		if len(apps) == 0 {
			return "", nil, "", false
		}
		a := w.validAsk(t, pick(t, "app", apps))
		a.NodeID = "no-such-node"
		need := ""
		for _, id := range SortedKeys(w.Shim.Nodes) {
			if w.Shim.Nodes[id].State == "removed" && pct(t, "removed-node", 50) {
				a.NodeID = id
				need = "|node-gone:" + id
				break
			}
		}
		return "alloc", allocReq(a), "unchanged+alloc:" + a.AllocationKey + need, true
	}},
	{"outstanding-ask-bound-on-unknown-node", func(t *rapid.T, w *World) (string, proto.Message, string, bool) {
		var live []string
		for _, k := range w.Shim.KeysIn(KOutstanding) {
			sk := w.Shim.Keys[k]
			if a := w.Last.Apps[sk.App]; a != nil {
				if ask := a.Asks[k]; ask != nil && !ask.Allocated {
					live = append(live, k)
				}
			}
		}
		if len(live) == 0 {
			return "", nil, "", false
		}
		sk := w.Shim.Keys[pick(t, "key", live)]
		op := sk.Spec
		op.Res = sk.Res.Clone()
		a := op.siAlloc(false)
		a.NodeID = "no-such-node"
		return "alloc", allocReq(a), "unchanged+alloc:" + a.AllocationKey + "|key-outstanding:" + a.AllocationKey, true
	}},
	{"placeholder-without-task-group", func(t *rapid.T, w *World) (string, proto.Message, string, bool) {
		apps := w.Shim.AcceptedApps()
		if len(apps) == 0 {
			return "", nil, "", false
		}
		a := w.validAsk(t, pick(t, "app", apps))
		a.Placeholder, a.TaskGroupName = true, ""
		return "alloc", allocReq(a), "unchanged", true
	}},
	{"ask-repeated", func(t *rapid.T, w *World) (string, proto.Message, string, bool) {
		var live []string
		for _, k := range w.Shim.KeysIn(KOutstanding) {
			sk := w.Shim.Keys[k]
			if a := w.Last.Apps[sk.App]; a != nil {
				if ask := a.Asks[k]; ask != nil && !ask.Allocated && ask.Res.Eq(sk.Res) {
					live = append(live, k)
				}
			}
		}
		if len(live) == 0 {
			return "", nil, "", false
		}
		sk := w.Shim.Keys[pick(t, "key", live)]
		op := sk.Spec
		op.Res = sk.Res.Clone()
		return "alloc", allocReq(op.siAlloc(false)), "unchanged|key-outstanding:" + sk.Key, true
	}},
	{"ask-empty-ids", func(t *rapid.T, w *World) (string, proto.Message, string, bool) {
		apps := w.Shim.AcceptedApps()
		if len(apps) == 0 {
			return "", nil, "", false
		}
		a := w.validAsk(t, pick(t, "app", apps))
		switch rapid.IntRange(0, 2).Draw(t, "empty") {
		case 0:
			a.AllocationKey = ""
		case 1:
			a.ApplicationID = ""
			if _, exists := w.Last.Apps[""]; exists {
				return "alloc", allocReq(a), "", true // an application with an empty id was accepted earlier: not invalid any more
			}
			return "alloc", allocReq(a), "unchanged+alloc:" + a.AllocationKey + "|no-app:", true
		default:
			a.AllocationTags, a.PreemptionPolicy = nil, nil
		}
		return "alloc", allocReq(a), "", true
	}},
	{"release-unknown", func(t *rapid.T, w *World) (string, proto.Message, string, bool) {
		app, key, part := "no-such-app", "no-such-key", PartName
		apps := w.Shim.AcceptedApps()
		switch rapid.IntRange(0, 3).Draw(t, "which") {
		case 0:
			if len(apps) > 0 {
				app = pick(t, "app", apps)
			}
		case 1:
			// a key of another application
			keys := append(w.Shim.KeysIn(KBound), w.Shim.KeysIn(KOutstanding)...)
			if len(keys) > 0 && len(apps) > 1 {
				key = pick(t, "key", keys)
				for _, a := range apps {
					if a != w.Shim.Keys[key].App {
						app = a
					}
				}
			}
		case 2:
			keys := append(w.Shim.KeysIn(KBound), w.Shim.KeysIn(KOutstanding)...)
			if len(keys) > 0 {
				key = pick(t, "key", keys)
				app = w.Shim.Keys[key].App
				part = "nosuch"
			}
		}
		return "alloc", releaseReq(app, key, part, anyTerm(t)), "unchanged", true
	}},
	{"release-unexpected-type", func(t *rapid.T, w *World) (string, proto.Message, string, bool) {
		keys := append(w.Shim.KeysIn(KBound), w.Shim.KeysIn(KOutstanding)...)
		if len(keys) == 0 {
			return "", nil, "", false
		}
		key := pick(t, "key", keys)
		term := si.TerminationType(rapid.SampledFrom([]int32{0, 2, 3, 4, 5, 17}).Draw(t, "term"))
		return "alloc", releaseReq(w.Shim.Keys[key].App, key, PartName, term), "", true
	}},
	{"app-duplicate", func(t *rapid.T, w *World) (string, proto.Message, string, bool) {
		var apps []string
		for _, id := range w.Shim.AcceptedApps() {
			if _, live := w.Last.Apps[id]; live { // a terminated application may be submitted again
				apps = append(apps, id)
			}
		}
		if len(apps) == 0 {
			return "", nil, "", false
		}
		id := pick(t, "app", apps)
		spec := w.Shim.Apps[id].Spec
		req := spec.request().(*rmevent.RMUpdateApplicationEvent).Request
		return "app", req, "unchanged+app:" + id + "|app-live:" + id, true
	}},
	{"app-missing-fields", func(t *rapid.T, w *World) (string, proto.Message, string, bool) {
		leaves := w.leafChoices()
		if len(leaves) == 0 {
			return "", nil, "", false
		}
		op := Op{Kind: OpAddApp, App: w.Shim.NextID("happ"), Queue: pick(t, "queue", leaves), User: "u1", Groups: UserGroups["u1"]}
		req := op.request().(*rmevent.RMUpdateApplicationEvent).Request
		expect := ""
		switch rapid.IntRange(0, 4).Draw(t, "missing") {
		case 0:
			req.New[0].Ugi = nil
			expect = "unchanged+app:" + op.App
		case 1:
			req.New[0].Ugi = nil
			// forced creation without user information: the core synthesizes an anonymous user, the item is not invalid
			req.New[0].Tags = map[string]string{siCommon.AppTagCreateForce: "true"}
		case 2:
			req.New[0].PartitionName = "nosuch"
			expect = "unchanged+app:" + op.App
		case 3:
			req.New[0].ApplicationID = ""
		default:
			req.New[0].Ugi = &si.UserGroupInformation{}
			req.New[0].Tags = nil
		}
		return "app", req, expect, true
	}},
	{"app-remove-unknown", func(t *rapid.T, w *World) (string, proto.Message, string, bool) {
		part := PartName
		if pct(t, "badpart", 30) {
			part = "nosuch"
		}
		return "app", &si.ApplicationRequest{RmID: RmID, Remove: []*si.RemoveApplicationRequest{{ApplicationID: "no-such-app", PartitionName: part}}}, "unchanged", true
	}},
	{"node-duplicate", func(t *rapid.T, w *World) (string, proto.Message, string, bool) {
		nodes := w.Shim.LiveNodes()
		if len(nodes) == 0 {
			return "", nil, "", false
		}
		id := pick(t, "node", nodes)
		act := si.NodeInfo_CREATE
		if pct(t, "drain", 30) {
			act = si.NodeInfo_CREATE_DRAIN
		}
		return "node", &si.NodeRequest{RmID: RmID, Nodes: []*si.NodeInfo{nodeInfo(id, act, genRes(t, "cap", 5, 20, false))}}, "unchanged+node:" + id + "|node-live:" + id, true
	}},
	{"node-unknown-update", func(t *rapid.T, w *World) (string, proto.Message, string, bool) {
		id, need := "no-such-node", ""
		for _, nid := range SortedKeys(w.Shim.Nodes) {
			if w.Shim.Nodes[nid].State == "removed" && pct(t, "removed", 50) {
				id, need = nid, "|node-gone:"+nid
				break
			}
		}
		act := rapid.SampledFrom([]si.NodeInfo_ActionFromRM{si.NodeInfo_UPDATE, si.NodeInfo_DRAIN_NODE, si.NodeInfo_DRAIN_TO_SCHEDULABLE, si.NodeInfo_DECOMISSION}).Draw(t, "act")
		return "node", &si.NodeRequest{RmID: RmID, Nodes: []*si.NodeInfo{nodeInfo(id, act, genRes(t, "cap", 5, 20, false))}}, "unchanged" + need, true
	}},
	{"node-update-without-effect", func(t *rapid.T, w *World) (string, proto.Message, string, bool) {
		nodes := w.Shim.LiveNodes()
		if len(nodes) == 0 {
			return "", nil, "", false
		}
		id := pick(t, "node", nodes)
		n := nodeInfo(id, si.NodeInfo_UPDATE, nil)
		switch rapid.IntRange(0, 2).Draw(t, "how") {
		case 0: // attribute only update: no schedulable resource
		case 1:
			n.Action = si.NodeInfo_ActionFromRM(rapid.SampledFrom([]int32{0, 7, 99}).Draw(t, "action"))
			n.SchedulableResource = genRes(t, "cap", 5, 20, false).SI()
		default:
			n.Attributes = map[string]string{siCommon.NodePartition: "nosuch"}
			n.SchedulableResource = genRes(t, "cap", 5, 20, false).SI()
		}
		return "node", &si.NodeRequest{RmID: RmID, Nodes: []*si.NodeInfo{n}}, "unchanged|node-live:" + id, true
	}},
	{"node-create-odd", func(t *rapid.T, w *World) (string, proto.Message, string, bool) {
		id := w.Shim.NextID("hnode")
		n := nodeInfo(id, si.NodeInfo_CREATE, genRes(t, "cap", 5, 20, false))
		expect := ""
		switch rapid.IntRange(0, 3).Draw(t, "odd") {
		case 0:
			n.SchedulableResource = nil
		case 1:
			n.SchedulableResource = Res{"memory": -4, "vcore": 3}.SI()
		case 2:
			n.Attributes = map[string]string{siCommon.NodePartition: "nosuch"}
			expect = "unchanged+node:" + id
		default:
			n.NodeID = ""
			expect = "unchanged+node:"
		}
		return "node", &si.NodeRequest{RmID: RmID, Nodes: []*si.NodeInfo{n}}, expect, true
	}},
	{"foreign-odd", func(t *rapid.T, w *World) (string, proto.Message, string, bool) {
		a := &si.Allocation{AllocationKey: w.Shim.NextID("hforeign"), NodeID: "no-such-node", PartitionName: PartName, ResourcePerAlloc: genRes(t, "fres", 1, 5, true).SI(),
			AllocationTags: map[string]string{siCommon.Foreign: siCommon.AllocTypeDefault}}
		expect := "unchanged"
		nodes := w.Shim.LiveNodes()
		switch rapid.IntRange(0, 2).Draw(t, "how") {
		case 0:
		case 1:
			if len(nodes) == 0 {
				return "", nil, "", false
			}
			a.NodeID = pick(t, "node", nodes)
			a.ResourcePerAlloc = nil
			expect = ""
		default:
			return "alloc", releaseReq("", "no-such-foreign", PartName, si.TerminationType_STOPPED_BY_RM), "unchanged", true
		}
		return "alloc", allocReq(a), expect, true
	}},
}

// GenHostile draws a hostile op for the current state.
func GenHostile(t *rapid.T, w *World) Op {
	for tries := 0; tries < 10; tries++ {
		c := hostileClasses[rapid.IntRange(0, len(hostileClasses)-1).Draw(t, "hostile-class")]
		style, msg, expect, ok := c.build(t, w)
		if !ok {
			continue
		}
		op := Op{Kind: OpHostile, Style: style, Raw: rawOf(msg), TaskGroup: c.name}
		parts := strings.Split(expect, "|")
		op.Term = parts[0]
		op.Need = parts[1:]
		return op
	}
	return Op{Kind: OpSchedule}
}

// ---------------------------------------------------------------------------------------------- oracle

// snapshotForCompare renders the part of a snapshot that an invalid request must leave untouched.
func snapshotForCompare(s *Snapshot) string {
	c := *s
	c.Rejected = nil // the listing of rejected applications is not a trace
	b, err := json.MarshalIndent(&c, "", " ")
	if err != nil {
		return err.Error()
	}
	return string(b)
}

func firstDiff(a, b string) string {
	la, lb := strings.Split(a, "\n"), strings.Split(b, "\n")
	for i := 0; i < len(la) && i < len(lb); i++ {
		if la[i] != lb[i] {
			ctx := ""
			for j := i - 1; j >= 0 && j > i-40; j-- {
				if strings.HasSuffix(la[j], "{") && len(la[j])-len(strings.TrimLeft(la[j], " ")) < len(la[i])-len(strings.TrimLeft(la[i], " ")) {
					ctx = strings.TrimSpace(la[j]) + " ... " + ctx
					if len(la[j])-len(strings.TrimLeft(la[j], " ")) <= 2 {
						break
					}
				}
			}
			return fmt.Sprintf("%sbefore: %s | after: %s", ctx, strings.TrimSpace(la[i]), strings.TrimSpace(lb[i]))
		}
	}
	return fmt.Sprintf("length differs (%d vs %d lines)", len(la), len(lb))
}

func (w *World) oracleC13(pre *Snapshot, op Op, res *StepResult, post *Snapshot) {
	if op.Kind != OpHostile {
		return
	}
	w.Tag("hostile-" + op.TaskGroup)
	if len(pre.Apps) > 0 && len(w.Shim.KeysIn(KBound)) > 0 && len(w.Shim.KeysIn(KOutstanding)) > 0 {
		special := false
		for _, n := range pre.Nodes {
			if len(n.Reservations) > 0 {
				special = true
			}
			for _, a := range n.Allocs {
				if a.ReleaseKey != "" || a.Preempted {
					special = true
				}
			}
		}
		if special {
			w.Tag("c13-hostile-in-busy-world")
		}
	}
	if op.Term == "" {
		return
	}
	w.Tag("c13-known-invalid")
	if a, b := snapshotForCompare(pre), snapshotForCompare(post); a != b {
		w.vio("C13", "invalid request (%s) changed the observable state: %s\nrequest: %s", op.TaskGroup, firstDiff(a, b), op.Raw)
	}
	if i := strings.Index(op.Term, "+"); i >= 0 {
		want := op.Term[i+1:]
		kind, id, _ := strings.Cut(want, ":")
		found := false
		for _, ev := range res.Events {
			switch v := ev.(type) {
			case *rmevent.RMRejectedAllocationEvent:
				for _, r := range v.RejectedAllocations {
					if kind == "alloc" && r.AllocationKey == id {
						found = true
					}
				}
			case *rmevent.RMApplicationUpdateEvent:
				for _, r := range v.RejectedApplications {
					if kind == "app" && r.ApplicationID == id {
						found = true
					}
				}
			case *rmevent.RMNodeUpdateEvent:
				for _, r := range v.RejectedNodes {
					if kind == "node" && r.NodeID == id {
						found = true
					}
				}
			}
		}
		if !found {
			w.vio("C13", "invalid request (%s) was not answered with a rejection for %s %s\nrequest: %s", op.TaskGroup, kind, id, op.Raw)
		}
	}
}

// FuzzStep builds the world from the prefix, sends one decoded request and runs a few more cycles; returns the first
// violation ("" when none). Used by the byte level fuzz target of C13.
func FuzzStep(conf string, prefix []Op, style, raw string) string {
	w, why := newWorldYAML(conf, WorldOpts{ReserveNow: true, Hostile: true}, "C13", "C03=>C13", "PANIC=>C13")
	if w == nil {
		return "fuzz world could not start: " + why
	}
	defer w.Close()
	for _, op := range prefix {
		w.Step(op)
		if w.Dead || len(w.Vios) > 0 {
			return "" // the prefix itself failed: reported by the world checks, not by this target
		}
	}
	w.Step(Op{Kind: OpHostile, Style: style, Raw: raw, TaskGroup: "fuzz"})
	// life goes on: a valid ask, a few cycles
	if !w.Dead && len(w.Vios) == 0 {
		w.Step(Op{Kind: OpAddAsk, App: "app-2", Key: "post-fuzz-1", Res: Res{"memory": 1, "vcore": 1}, AllowSelf: true})
	}
	for i := 0; i < 3 && !w.Dead && len(w.Vios) == 0; i++ {
		w.Step(Op{Kind: OpSchedule})
	}
	if w.Inconclusive != "" {
		return ""
	}
	for _, v := range w.Vios {
		if v.Prop == "C13" {
			return v.Msg
		}
	}
	return ""
}
