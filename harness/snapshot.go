package harness

import (
	"sort"
	"strings"

	"github.com/apache/yunikorn-core/pkg/scheduler"
	"github.com/apache/yunikorn-core/pkg/scheduler/objects"
	"github.com/apache/yunikorn-core/pkg/scheduler/ugm"
	"github.com/apache/yunikorn-core/pkg/webservice/dao"
)

// AllocSnap is the observable state of one allocation / ask.
type AllocSnap struct {
	Key, App, Node, TaskGroup, ReqNode, ReleaseKey string
	Res                                            Res
	Placeholder, Foreign, Released, Preempted      bool
	Allocated, PhUsed, Originator                  bool
	AllowSelf, AllowOther, Triggered               bool
	Priority                                       int32
	CreateUnix                                     int64
}

// ResvSnap is one reservation as seen from a node or an application.
type ResvSnap struct{ App, Key, Node string }

// NodeSnap is the observable state of a node.
type NodeSnap struct {
	ID                                       string
	Capacity, Occupied, Allocated, Available Res
	Schedulable                              bool
	Allocs                                   map[string]*AllocSnap
	Reservations                             []ResvSnap
}

// PhDataSnap mirrors the per task group placeholder counters.
type PhDataSnap struct{ Count, Replaced, TimedOut int64 }

// AppSnap is the observable state of an application.
type AppSnap struct {
	ID, State, Queue, User, Style    string
	Groups                           []string
	Allocated, Placeholder, Pending  Res
	Allocs                           map[string]*AllocSnap // bound allocations
	Asks                             map[string]*AllocSnap // every tracked request (pending or allocated)
	Reservations                     map[string]string     // ask key -> node
	PhData                           map[string]PhDataSnap
	StateLog                         []string
	SortedKeys                       []string // the pre-sorted request list (hook reader)
	PhTimerArmed, StateTimerArmed    bool
	HasPlaceholderAlloc, QueueLinked bool
}

// QueueSnap is the observable state of a queue (REST view plus application list).
type QueueSnap struct {
	Path, Parent, Status, SortPolicy              string
	Leaf, Managed, MaxSet, GuarSet                bool
	Allocated, Pending, Preempting                Res
	Max, Guaranteed, HeadRoom, EffMax             Res
	MaxApps, RunningApps                          uint64
	AllocatingAccepted                            []string
	Apps                                          []string
	ReservedApps                                  map[string]int
	Props                                         map[string]string
	Children                                      []string
	PreemptionEnabled, PreemptionFence, PrioFence bool
	PrioritySorting                               bool
	PriorityOffset, CurrentPriority               int32
	PreemptionDelay, QuotaPreemptionDelay         string
	Template                                      *dao.TemplateInfo
	QuotaPreemptRunning                           bool
}

// TrackSnap is the per queue path view of one user or group tracker.
type TrackSnap struct {
	Usage   map[string]Res      // queue path -> usage
	Apps    map[string][]string // queue path -> running applications
	MaxRes  map[string]Res      // queue path -> limit (only where set)
	MaxApps map[string]uint64
	// user only: application -> group it is tracked under ("" = none)
	AppGroups map[string]string
	// group only
	Applications []string
}

// Snapshot is everything the oracles may look at.
type Snapshot struct {
	Nodes                                      map[string]*NodeSnap
	Apps                                       map[string]*AppSnap
	Queues                                     map[string]*QueueSnap
	Completed, Rejected                        []string
	Done                                       map[string]*AppSnap // terminated applications still listed by the partition
	PartReservations, PartPhAllocs, PartAllocs int
	Total                                      Res
	Users, Groups                              map[string]*TrackSnap
	PartitionGone                              bool
}

func allocSnap(a *objects.Allocation) *AllocSnap {
	s := &AllocSnap{
		Key: a.GetAllocationKey(), App: a.GetApplicationID(), Node: a.GetNodeID(), TaskGroup: a.GetTaskGroup(), ReqNode: a.GetRequiredNode(),
		Res: FromCore(a.GetAllocatedResource()), Placeholder: a.IsPlaceholder(), Foreign: a.IsForeign(), Released: a.IsReleased(), Preempted: a.IsPreempted(),
		Allocated: a.IsAllocated(), PhUsed: a.IsPlaceholderUsed(), Originator: a.IsOriginator(), AllowSelf: a.IsAllowPreemptSelf(), AllowOther: a.IsAllowPreemptOther(),
		Triggered: a.HasTriggeredPreemption(), Priority: a.GetPriority(), CreateUnix: a.GetCreateTime().Unix(),
	}
	if r := a.GetRelease(); r != nil {
		s.ReleaseKey = r.GetAllocationKey()
	}
	return s
}

func walkUsage(d *dao.ResourceUsageDAOInfo, t *TrackSnap) {
	if d == nil {
		return
	}
	t.Usage[d.QueuePath] = FromDAO(d.ResourceUsage)
	apps := append([]string{}, d.RunningApplications...)
	sort.Strings(apps)
	t.Apps[d.QueuePath] = apps
	if len(d.MaxResources) > 0 {
		t.MaxRes[d.QueuePath] = FromDAO(d.MaxResources)
	}
	if d.MaxApplications != 0 {
		t.MaxApps[d.QueuePath] = d.MaxApplications
	}
	for _, c := range d.Children {
		walkUsage(c, t)
	}
}

func newTrack() *TrackSnap {
	return &TrackSnap{Usage: map[string]Res{}, Apps: map[string][]string{}, MaxRes: map[string]Res{}, MaxApps: map[string]uint64{}, AppGroups: map[string]string{}}
}

func walkQueues(d dao.PartitionQueueDAOInfo, out map[string]*QueueSnap) {
	q := &QueueSnap{
		Path: d.QueueName, Parent: d.Parent, Status: d.Status, SortPolicy: d.SortingPolicy, Leaf: d.IsLeaf, Managed: d.IsManaged,
		Allocated: FromDAO(d.AllocatedResource), Pending: FromDAO(d.PendingResource), Preempting: FromDAO(d.PreemptingResource),
		Max: FromDAO(d.MaxResource), MaxSet: len(d.MaxResource) > 0, Guaranteed: FromDAO(d.GuaranteedResource), GuarSet: len(d.GuaranteedResource) > 0,
		HeadRoom: FromDAO(d.HeadRoom), MaxApps: d.MaxRunningApps, RunningApps: d.RunningApps, Props: d.Properties,
		PreemptionEnabled: d.PreemptionEnabled, PreemptionFence: d.IsPreemptionFence, PrioFence: d.IsPriorityFence, PrioritySorting: d.PrioritySorting,
		PriorityOffset: d.PriorityOffset, CurrentPriority: d.CurrentPriority, PreemptionDelay: d.PreemptionDelay, QuotaPreemptionDelay: d.QuotaPreemptionDelay,
		Template: d.TemplateInfo,
	}
	q.AllocatingAccepted = append([]string{}, d.AllocatingAcceptedApps...)
	sort.Strings(q.AllocatingAccepted)
	for _, c := range d.Children {
		q.Children = append(q.Children, c.QueueName)
	}
	sort.Strings(q.Children)
	out[q.Path] = q
	for _, c := range d.Children {
		walkQueues(c, out)
	}
}

// TakeSnapshot reads the observable state through exported getters, DAO builders and the hook accessors.
func TakeSnapshot(cc *scheduler.ClusterContext, partName string) *Snapshot {
	s := &Snapshot{Nodes: map[string]*NodeSnap{}, Apps: map[string]*AppSnap{}, Queues: map[string]*QueueSnap{}, Users: map[string]*TrackSnap{}, Groups: map[string]*TrackSnap{}}
	part := cc.GetPartition(partName)
	if part == nil {
		s.PartitionGone = true
		return s
	}
	s.PartReservations, s.PartPhAllocs = part.VerifCounters()
	s.PartAllocs = part.GetTotalAllocationCount()
	s.Total = FromCore(part.GetTotalPartitionResource())
	for _, n := range part.GetNodes() {
		ns := &NodeSnap{ID: n.NodeID, Capacity: FromCore(n.GetCapacity()), Occupied: FromCore(n.GetOccupiedResource()), Allocated: FromCore(n.GetAllocatedResource()),
			Available: FromCore(n.GetAvailableResource()), Schedulable: n.IsSchedulable(), Allocs: map[string]*AllocSnap{}}
		for _, a := range n.GetYunikornAllocations() {
			ns.Allocs[a.GetAllocationKey()] = allocSnap(a)
		}
		for _, a := range n.GetForeignAllocations() {
			ns.Allocs[a.GetAllocationKey()] = allocSnap(a)
		}
		for _, r := range n.VerifReservations() {
			ns.Reservations = append(ns.Reservations, ResvSnap{App: r.AppID, Key: r.AllocKey, Node: n.NodeID})
		}
		sort.Slice(ns.Reservations, func(i, j int) bool { return ns.Reservations[i].Key < ns.Reservations[j].Key })
		s.Nodes[n.NodeID] = ns
	}
	s.Done = map[string]*AppSnap{}
	for _, a := range part.GetCompletedApplications() {
		s.Done[a.ApplicationID] = appSnap(a)
	}
	for _, a := range part.GetApplications() {
		s.Apps[a.ApplicationID] = appSnap(a)
	}
	for _, a := range part.GetCompletedApplications() {
		s.Completed = append(s.Completed, a.ApplicationID)
	}
	for _, a := range part.GetRejectedApplications() {
		s.Rejected = append(s.Rejected, a.ApplicationID)
	}
	sort.Strings(s.Completed)
	sort.Strings(s.Rejected)
	walkQueues(part.GetPartitionQueues(), s.Queues)
	return finishSnapshot(s, part)
}

func appSnap(a *objects.Application) *AppSnap {
	{
		u := a.GetUser()
		as := &AppSnap{ID: a.ApplicationID, State: a.CurrentState(), Queue: a.GetQueuePath(), User: u.User, Groups: u.Groups,
			Allocated: FromCore(a.GetAllocatedResource()), Placeholder: FromCore(a.GetPlaceholderResource()), Pending: FromCore(a.GetPendingResource()),
			Allocs: map[string]*AllocSnap{}, Asks: map[string]*AllocSnap{}, Reservations: a.VerifReservations(), PhData: map[string]PhDataSnap{},
			PhTimerArmed: a.VerifPlaceholderTimerArmed(), StateTimerArmed: a.VerifStateTimerArmed(), HasPlaceholderAlloc: a.HasPlaceholderAllocation(), QueueLinked: a.GetQueue() != nil}
		for _, al := range a.GetAllAllocations() {
			as.Allocs[al.GetAllocationKey()] = allocSnap(al)
		}
		for _, al := range a.GetAllRequests() {
			as.Asks[al.GetAllocationKey()] = allocSnap(al)
		}
		for _, pd := range a.GetPlaceholderDataCopy() {
			as.PhData[pd.TaskGroupName] = PhDataSnap{Count: pd.Count, Replaced: pd.Replaced, TimedOut: pd.TimedOut}
		}
		as.SortedKeys = a.VerifSortedRequestKeys()
		for _, e := range a.GetStateLog() {
			as.StateLog = append(as.StateLog, e.ApplicationState)
		}
		return as
	}
}

func finishSnapshot(s *Snapshot, part *scheduler.PartitionContext) *Snapshot {
	for path, q := range s.Queues {
		cq := part.GetQueue(path)
		if cq == nil {
			continue
		}
		for id := range cq.GetCopyOfApps() {
			q.Apps = append(q.Apps, id)
		}
		sort.Strings(q.Apps)
		q.ReservedApps = cq.GetReservedApps()
		q.EffMax = FromCore(cq.GetMaxResource())
		q.QuotaPreemptRunning = cq.VerifQuotaPreemptionRunning()
	}
	SnapTrackers(s)
	return s
}

// SnapTrackers reads the user and group trackers of the (process wide) user group manager through their REST DAOs.
func SnapTrackers(s *Snapshot) {
	if s.Users == nil {
		s.Users, s.Groups = map[string]*TrackSnap{}, map[string]*TrackSnap{}
	}
	m := ugm.GetUserManager()
	for _, ut := range m.GetUserTrackers() {
		d := ut.GetResourceUsageDAOInfo()
		t := newTrack()
		walkUsage(d.Queues, t)
		for app, g := range d.Groups {
			t.AppGroups[app] = g
		}
		s.Users[d.UserName] = t
	}
	for _, gt := range m.GetGroupTrackers() {
		d := gt.GetResourceUsageDAOInfo()
		t := newTrack()
		walkUsage(d.Queues, t)
		t.Applications = append([]string{}, d.Applications...)
		sort.Strings(t.Applications)
		s.Groups[d.GroupName] = t
	}
}

// PathPrefixes returns root, root.a, root.a.b for root.a.b.
func PathPrefixes(path string) []string {
	parts := strings.Split(path, ".")
	out := make([]string, 0, len(parts))
	for i := range parts {
		out = append(out, strings.Join(parts[:i+1], "."))
	}
	return out
}

// SortedKeys returns the sorted keys of a map with string keys.
func SortedKeys[V any](m map[string]V) []string {
	out := make([]string, 0, len(m))
	for k := range m {
		out = append(out, k)
	}
	sort.Strings(out)
	return out
}
