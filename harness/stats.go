// Package harness is the shared library behind all property checks: statistics/evidence collection,
// failure recording and replay files, the synchronous world around a real ClusterContext, the
// shim-side reference model, snapshots, generators and the per-property oracles.
package harness

import (
	"encoding/json"
	"fmt"
	"hash/fnv"
	"os"
	"sort"
	"strings"
	"sync"
)

// Stats collects what a check run actually covered. One instance per test function.
type Stats struct {
	mu          sync.Mutex
	Property    string            `json:"property"`
	Evaluations int               `json:"evaluations"`
	NonTrivial  map[uint64]bool   `json:"-"`
	Labels      map[string]int    `json:"labels"`
	Excluded    map[string]int    `json:"excluded"`
	Samples     []json.RawMessage `json:"samples"`
	Steps       int               `json:"steps"`
	Decisions   int               `json:"decisions_checked"`
	MaxSamples  int               `json:"-"`
	sampleSeen  map[uint64]bool
}

// NewStats creates the collector for a property.
func NewStats(prop string) *Stats {
	return &Stats{Property: prop, NonTrivial: map[uint64]bool{}, Labels: map[string]int{}, Excluded: map[string]int{}, MaxSamples: 4, sampleSeen: map[uint64]bool{}}
}

// Fingerprint hashes a string (resolved trace / input) into 64 bits.
func Fingerprint(s string) uint64 {
	h := fnv.New64a()
	_, _ = h.Write([]byte(s))
	return h.Sum64()
}

// Case registers one executed case. fp identifies the resolved case; nontrivial says whether it is
// non-trivial by the property's stated rule; sample (may be nil) is a JSON-able description of the case.
func (s *Stats) Case(fp uint64, nontrivial bool, labels []string, sample interface{}) {
	s.mu.Lock()
	defer s.mu.Unlock()
	s.Evaluations++
	for _, l := range labels {
		s.Labels[l]++
	}
	if nontrivial {
		s.NonTrivial[fp] = true
		if sample != nil && len(s.Samples) < s.MaxSamples && !s.sampleSeen[fp] {
			if b, err := json.Marshal(sample); err == nil {
				s.Samples = append(s.Samples, b)
				s.sampleSeen[fp] = true
			}
		}
	}
}

// Label bumps a label counter outside of Case.
func (s *Stats) Label(l string, n int) {
	s.mu.Lock()
	defer s.mu.Unlock()
	s.Labels[l] += n
}

// Exclude counts something skipped because of a listed known finding.
func (s *Stats) Exclude(name string) {
	s.mu.Lock()
	defer s.mu.Unlock()
	s.Excluded[name]++
}

// AddSteps adds to the step and decision counters.
func (s *Stats) AddSteps(steps, decisions int) {
	s.mu.Lock()
	defer s.mu.Unlock()
	s.Steps += steps
	s.Decisions += decisions
}

type statsFile struct {
	*Stats
	Fingerprints []uint64 `json:"fingerprints"`
}

// Write stores the shard statistics where the driver asked for them (VERIF_STATS_OUT); no-op otherwise.
func (s *Stats) Write() {
	path := os.Getenv("VERIF_STATS_OUT")
	if path == "" {
		return
	}
	s.mu.Lock()
	defer s.mu.Unlock()
	fps := make([]uint64, 0, len(s.NonTrivial))
	for k := range s.NonTrivial {
		fps = append(fps, k)
	}
	sort.Slice(fps, func(i, j int) bool { return fps[i] < fps[j] })
	b, err := json.Marshal(statsFile{Stats: s, Fingerprints: fps})
	if err != nil {
		fmt.Fprintln(os.Stderr, "stats marshal:", err)
		return
	}
	// several test functions of one process may serve the same property: append one JSON doc per line
	f, err := os.OpenFile(path, os.O_APPEND|os.O_CREATE|os.O_WRONLY, 0o644)
	if err != nil {
		fmt.Fprintln(os.Stderr, "stats write:", err)
		return
	}
	defer f.Close()
	_, _ = f.Write(append(b, '\n'))
}

// Failure is a recorded counterexample: property, message and a replayable case.
type Failure struct {
	Property string          `json:"property"`
	Check    string          `json:"check"`
	Message  string          `json:"message"`
	Size     int             `json:"size"`
	Case     json.RawMessage `json:"case"`
	Trace    []string        `json:"trace,omitempty"`
	Known    string          `json:"known,omitempty"` // id of the listed known finding whose shape the case contains
}

var (
	failMu   sync.Mutex
	failBest = map[string]*Failure{}
)

// RecordFailure remembers the smallest failing case seen for the check in this process.
func RecordFailure(f *Failure) {
	failMu.Lock()
	defer failMu.Unlock()
	cur := failBest[f.Check]
	if cur == nil || f.Size < cur.Size {
		failBest[f.Check] = f
	}
}

// TakeFailure removes and returns the smallest recorded failure of the check.
func TakeFailure(check string) *Failure {
	failMu.Lock()
	defer failMu.Unlock()
	f := failBest[check]
	delete(failBest, check)
	return f
}

// FlushFailure writes the smallest recorded failure of the check to VERIF_FAIL_OUT (one JSON doc per line).
func FlushFailure(check string) {
	failMu.Lock()
	f := failBest[check]
	delete(failBest, check)
	failMu.Unlock()
	if f == nil {
		return
	}
	path := os.Getenv("VERIF_FAIL_OUT")
	if path == "" {
		fmt.Fprintf(os.Stderr, "FAILURE %s: %s\n", f.Check, f.Message)
		return
	}
	b, err := json.Marshal(f)
	if err != nil {
		fmt.Fprintln(os.Stderr, "failure marshal:", err)
		return
	}
	fh, err := os.OpenFile(path, os.O_APPEND|os.O_CREATE|os.O_WRONLY, 0o644)
	if err != nil {
		fmt.Fprintln(os.Stderr, "failure write:", err)
		return
	}
	defer fh.Close()
	_, _ = fh.Write(append(b, '\n'))
}

// Excluded reports whether the named exclusion (from a listed known finding) is switched on.
func Excluded(name string) bool {
	for _, e := range strings.Split(os.Getenv("VERIF_EXCLUDE"), ",") {
		if strings.TrimSpace(e) == name {
			return true
		}
	}
	return false
}

// Thorough reports the tier.
func Thorough() bool {
	return os.Getenv("VERIF_TIER") == "thorough"
}
