package harness

import (
	"fmt"
	"sort"
	"strings"

	"go.yaml.in/yaml/v3"
	"pgregory.net/rapid"

	"github.com/apache/yunikorn-core/pkg/common/configs"
	"github.com/apache/yunikorn-core/pkg/common/resources"
)

// Users and groups known to the world generators.
var (
	Users  = []string{"u1", "u2", "u3"}
	Groups = []string{"g1", "g2", "g3"}
	// UserGroups is the fixed group membership the shim reports for a user (first entry is the primary group).
	UserGroups = map[string][]string{"u1": {"g1", "g2"}, "u2": {"g2"}, "u3": {"g3", "g1"}}
)

// ConfOpts steers the valid-by-construction configuration generator.
type ConfOpts struct {
	MaxDepth     int  // queue levels below root (1..3)
	Limits       bool // generate user/group limits
	MaxApps      bool // generate max applications
	Quotas       bool // generate max/guaranteed resources
	Preemption   bool // generate preemption/priority properties and guarantees
	Templates    bool // generate child templates and a dynamic parent
	TightQuota   bool // small maxima (so they bite)
	FifoOnly     bool // leaf sort policy always fifo (needed by gang apps)
	QuotaPreempt bool // set quota preemption delays and the partition flag
	WideTrees    bool // 3-5 children per parent (sorting needs several candidates)
	FewPrioProps bool // priority offsets and priority fences are rare (the crisp priority rule of preemption applies)
	TightLimits  bool // user/group resource limits of 4-14 while queue maxima stay loose (limits bite, queues do not)
	GuarScenario bool // the situation queue preemption is about: maxima are rare, most queues have a small guaranteed share for memory and vcore
}

// MarshalConf renders a scheduler configuration as YAML with the repository's own YAML library.
func MarshalConf(c *configs.SchedulerConfig) string {
	b, err := yaml.Marshal(c)
	if err != nil {
		panic(err)
	}
	return string(b)
}

// WithResolver returns the configuration with the user/group resolver of every partition set to typ.
func WithResolver(y string, typ string) (string, bool) {
	conf, err := configs.LoadSchedulerConfigFromByteArray([]byte(y))
	if err != nil {
		return y, false
	}
	for i := range conf.Partitions {
		conf.Partitions[i].UserGroupResolver.Type = typ
	}
	return MarshalConf(conf), true
}

var queueNamePool = []string{"a", "ab", "b", "a_b", "x1", "q", "dev", "prod", "Batch", "Q2", "A"}

type confGen struct {
	t    *rapid.T
	o    ConfOpts
	seq  int
	dynP bool
}

func (g *confGen) resVal(label string, hi int64) int64 {
	if g.o.TightQuota {
		return rapid.Int64Range(1, min(hi, 12)).Draw(g.t, label)
	}
	return rapid.Int64Range(1, hi).Draw(g.t, label)
}

// genMax draws an own maximum within the effective parent maximum; nil means not set.
func (g *confGen) genMax(parentEff Res, path string) Res {
	if !g.o.Quotas || rapid.IntRange(0, 9).Draw(g.t, "max-unset-"+path) < 3 {
		return nil
	}
	if g.o.GuarScenario && rapid.IntRange(0, 9).Draw(g.t, "max-rare-"+path) < 8 {
		return nil
	}
	out := Res{}
	for _, k := range ResTypes {
		if rapid.IntRange(0, 9).Draw(g.t, "max-has-"+k+path) < 6 {
			hi := int64(40)
			if pv, ok := parentEff[k]; ok {
				hi = pv
			}
			if hi < 1 {
				continue
			}
			out[k] = g.resVal("max-"+k+path, hi)
		}
	}
	if len(out) == 0 {
		return nil
	}
	return out
}

func effMax(parentEff, own Res) Res {
	out := parentEff.Clone()
	for k, v := range own {
		if pv, ok := out[k]; !ok || v < pv {
			out[k] = v
		}
	}
	return out
}

type limitCtx struct {
	userRes, groupRes   map[string]Res
	userApps, groupApps map[string]uint64
}

func (l limitCtx) clone() limitCtx {
	out := limitCtx{userRes: map[string]Res{}, groupRes: map[string]Res{}, userApps: map[string]uint64{}, groupApps: map[string]uint64{}}
	for k, v := range l.userRes {
		out.userRes[k] = v
	}
	for k, v := range l.groupRes {
		out.groupRes[k] = v
	}
	for k, v := range l.userApps {
		out.userApps[k] = v
	}
	for k, v := range l.groupApps {
		out.groupApps[k] = v
	}
	return out
}

// genLimits draws a limit list for a queue, valid against the queue's own settings and the ancestors' limits,
// and returns the context for the children exactly as the validator carries it forward.
func (g *confGen) genLimits(path string, ownMax Res, maxApps uint64, isRoot bool, in limitCtx) ([]configs.Limit, limitCtx) {
	out := in.clone()
	if !g.o.Limits || rapid.IntRange(0, 9).Draw(g.t, "lim-none-"+path) < 4 {
		return nil, out
	}
	var limits []configs.Limit
	names := []struct {
		name  string
		group bool
	}{}
	for _, u := range Users {
		if rapid.IntRange(0, 9).Draw(g.t, "lim-u-"+u+path) < 4 {
			names = append(names, struct {
				name  string
				group bool
			}{u, false})
		}
	}
	namedGroup := false
	for _, gr := range Groups {
		if rapid.IntRange(0, 9).Draw(g.t, "lim-g-"+gr+path) < 3 {
			names = append(names, struct {
				name  string
				group bool
			}{gr, true})
			namedGroup = true
		}
	}
	// wildcards come last
	if rapid.IntRange(0, 9).Draw(g.t, "lim-uw-"+path) < 3 {
		names = append(names, struct {
			name  string
			group bool
		}{"*", false})
	}
	if namedGroup && rapid.IntRange(0, 9).Draw(g.t, "lim-gw-"+path) < 3 {
		names = append(names, struct {
			name  string
			group bool
		}{"*", true})
	}
	for i, n := range names {
		var parentRes Res
		var parentApps uint64
		var hasRes, hasApps bool
		resMap, appMap := in.userRes, in.userApps
		if n.group {
			resMap, appMap = in.groupRes, in.groupApps
		}
		if v, ok := resMap[n.name]; ok {
			parentRes, hasRes = v, true
		} else if v, ok := resMap["*"]; ok && n.name != "*" {
			parentRes, hasRes = v, true
		}
		if v, ok := appMap[n.name]; ok {
			parentApps, hasApps = v, true
		} else if v, ok := appMap["*"]; ok && n.name != "*" {
			parentApps, hasApps = v, true
		}
		lbl := fmt.Sprintf("lim-%d-%s", i, path)
		lim := configs.Limit{Limit: fmt.Sprintf("%s-%d", path, i)}
		if n.group {
			lim.Groups = []string{n.name}
		} else {
			lim.Users = []string{n.name}
		}
		// resources
		var lres Res
		if rapid.IntRange(0, 9).Draw(g.t, lbl+"-hasres") < 7 {
			lres = Res{}
			for _, k := range ResTypes {
				if rapid.IntRange(0, 9).Draw(g.t, lbl+"-has-"+k) < 5 {
					hi := int64(30)
					if g.o.TightQuota {
						hi = 10
					}
					lo := int64(1)
					if g.o.TightLimits {
						hi, lo = 14, 4
					}
					if v, ok := ownMax[k]; ok && !isRoot && v < hi {
						hi = v
					}
					if hasRes {
						if v, ok := parentRes[k]; ok && v < hi {
							hi = v
						}
					}
					if hi < 1 {
						continue
					}
					if lo > hi {
						lo = hi
					}
					lres[k] = rapid.Int64Range(lo, hi).Draw(g.t, lbl+"-"+k)
				}
			}
			if len(lres) == 0 {
				lres = nil
			}
		}
		// applications
		var lapps uint64
		mustApps := lres == nil || (hasApps && parentApps != 0)
		if mustApps || rapid.IntRange(0, 9).Draw(g.t, lbl+"-hasapps") < 4 {
			hi := uint64(4)
			if maxApps != 0 && maxApps < hi {
				hi = maxApps
			}
			if hasApps && parentApps != 0 && parentApps < hi {
				hi = parentApps
			}
			lapps = rapid.Uint64Range(1, hi).Draw(g.t, lbl+"-apps")
		}
		lim.MaxApplications = lapps
		lim.MaxResources = lres.ConfMap()
		limits = append(limits, lim)
		// carry forward exactly like the validator does
		if n.group {
			out.groupApps[n.name] = lapps
			if v, ok := in.groupRes[n.name]; ok {
				out.groupRes[n.name] = minDefined(lresOrEmpty(lres), v)
			} else {
				out.groupRes[n.name] = lresOrEmpty(lres)
			}
		} else {
			out.userApps[n.name] = lapps
			if v, ok := in.userRes[n.name]; ok {
				out.userRes[n.name] = minDefined(lresOrEmpty(lres), v)
			} else {
				out.userRes[n.name] = lresOrEmpty(lres)
			}
		}
	}
	return limits, out
}

func lresOrEmpty(r Res) Res {
	if r == nil {
		return Res{}
	}
	return r
}

// minDefined is ComponentWiseMin: union of types, minimum where both define it.
func minDefined(a, b Res) Res {
	out := Res{}
	for k, v := range a {
		if w, ok := b[k]; ok && w < v {
			out[k] = w
		} else {
			out[k] = v
		}
	}
	for k, v := range b {
		if _, ok := a[k]; !ok {
			out[k] = v
		}
	}
	return out
}

func (g *confGen) genProps(path string, leaf bool) map[string]string {
	props := map[string]string{}
	d := func(lbl string, n int) int { return rapid.IntRange(0, n-1).Draw(g.t, lbl+path) }
	if leaf && !g.o.FifoOnly && d("p-sort", 4) == 0 {
		props[configs.ApplicationSortPolicy] = "fair"
	}
	if d("p-sortprio", 6) == 0 {
		props[configs.ApplicationSortPriority] = "disabled"
	}
	if g.o.Preemption {
		switch d("p-prepol", 8) {
		case 0:
			props[configs.PreemptionPolicy] = "fence"
		case 1:
			props[configs.PreemptionPolicy] = "disabled"
		}
		prioN, offN := 8, 3
		if g.o.FewPrioProps {
			prioN, offN = 40, 1
		}
		switch d("p-priopol", prioN) {
		case 0:
			props[configs.PriorityPolicy] = "fence"
		}
		if d("p-offset", 10) < offN && (!g.o.FewPrioProps || d("p-offset2", 4) == 0) {
			props[configs.PriorityOffset] = fmt.Sprintf("%d", rapid.IntRange(-3, 3).Draw(g.t, "p-offv"+path))
		}
		if leaf {
			if d("p-delay", 3) == 0 {
				props[configs.PreemptionDelay] = "1h"
			} else {
				props[configs.PreemptionDelay] = "1ms"
			}
		}
	}
	if g.o.QuotaPreempt && d("p-qdelay", 2) == 0 {
		if d("p-qdelayv", 4) == 0 {
			props[configs.QuotaPreemptionDelay] = "1h"
		} else {
			props[configs.QuotaPreemptionDelay] = "1ms"
		}
	}
	if len(props) == 0 {
		return nil
	}
	return props
}

// genQueue draws one queue below the root. guarBudget is what the queue may still promise as guaranteed.
func (g *confGen) genQueue(name, parentPath string, depth int, parentEff Res, parentMaxApps uint64, guarBudget Res, lim limitCtx) configs.QueueConfig {
	path := parentPath + "." + name
	q := configs.QueueConfig{Name: name}
	own := g.genMax(parentEff, path)
	eff := effMax(parentEff, own)
	// max applications: non increasing downwards, mandatory once a parent sets it
	if parentMaxApps != 0 {
		q.MaxApplications = rapid.Uint64Range(1, parentMaxApps).Draw(g.t, "maxapps-"+path)
	} else if g.o.MaxApps && rapid.IntRange(0, 9).Draw(g.t, "maxapps-set-"+path) < 4 {
		q.MaxApplications = rapid.Uint64Range(1, 4).Draw(g.t, "maxapps-"+path)
	}
	isParent := depth < g.o.MaxDepth && rapid.IntRange(0, 9).Draw(g.t, "parent-"+path) < 5
	// guaranteed: within own max, within the budget handed down
	var guar Res
	if g.o.GuarScenario && isParent && rapid.IntRange(0, 9).Draw(g.t, "guar-scenario-parent-"+path) < 7 {
		// parents mostly promise nothing themselves: the leaves compete
	} else if g.o.GuarScenario && rapid.IntRange(0, 9).Draw(g.t, "guar-scenario-"+path) < 8 {
		// a small share for memory and vcore, the same for both (sometimes only one of them)
		v := rapid.Int64Range(2, 9).Draw(g.t, "guar-scenario-v"+path)
		guar = Res{}
		for _, k := range []string{"memory", "vcore"} {
			hi := v
			if e, ok := eff[k]; ok && e < hi {
				hi = e
			}
			if b, ok := guarBudget[k]; ok && b < hi {
				hi = b
			}
			if hi >= 1 && rapid.IntRange(0, 9).Draw(g.t, "guar-scenario-has-"+k+path) < 9 {
				guar[k] = hi
			}
		}
		if len(guar) == 0 {
			guar = nil
		}
	} else if g.o.Quotas && (g.o.Preemption || rapid.IntRange(0, 9).Draw(g.t, "guar-set-"+path) < 4) {
		guar = Res{}
		for _, k := range ResTypes {
			if rapid.IntRange(0, 9).Draw(g.t, "guar-has-"+k+path) < 5 {
				hi := int64(20)
				if v, ok := eff[k]; ok && v < hi {
					hi = v
				}
				if v, ok := guarBudget[k]; ok && v < hi {
					hi = v
				}
				if hi < 1 {
					continue
				}
				guar[k] = rapid.Int64Range(1, hi).Draw(g.t, "guar-"+k+path)
			}
		}
		if len(guar) == 0 {
			guar = nil
		}
	}
	q.Resources = configs.Resources{Max: own.ConfMap(), Guaranteed: guar.ConfMap()}
	q.Limits, lim = g.genLimits(path, own, q.MaxApplications, false, lim)
	if isParent {
		q.Parent = true
		q.Properties = g.genProps(path, false)
		// budget for the children's guaranteed sum: this queue's guaranteed where defined, its effective max otherwise
		childBudget := Res{}
		for k, v := range eff {
			childBudget[k] = v
		}
		for k, v := range guar {
			if cv, ok := childBudget[k]; !ok || v < cv {
				childBudget[k] = v
			}
		}
		// the budget handed to this queue also bounds what the children may promise together when this queue
		// does not promise anything itself (the validator passes the children's sum upwards in that case)
		for k, v := range guarBudget {
			if _, own := guar[k]; own {
				continue
			}
			if cv, ok := childBudget[k]; !ok || v < cv {
				childBudget[k] = v
			}
		}
		n := rapid.IntRange(1, 3).Draw(g.t, "children-"+path)
		if g.o.WideTrees {
			n = rapid.IntRange(3, 5).Draw(g.t, "children-wide-"+path)
		}
		used := map[string]bool{}
		for i := 0; i < n; i++ {
			cn := rapid.SampledFrom(queueNamePool).Draw(g.t, fmt.Sprintf("child-name-%d-%s", i, path))
			if used[strings.ToLower(cn)] {
				continue
			}
			used[strings.ToLower(cn)] = true
			child := g.genQueue(cn, path, depth+1, eff, q.MaxApplications, childBudget, lim)
			q.Queues = append(q.Queues, child)
			// reduce the budget by what the child passes upwards: its guaranteed, or its children's sum
			for k, v := range passedUpGuaranteed(child) {
				if _, ok := childBudget[k]; ok {
					childBudget[k] -= v
					if childBudget[k] < 0 {
						childBudget[k] = 0
					}
				}
			}
		}
		if g.o.Templates && rapid.IntRange(0, 9).Draw(g.t, "tmpl-"+path) < 3 {
			q.ChildTemplate = g.genTemplate(path, eff, q.MaxApplications)
		}
	} else {
		q.Properties = g.genProps(path, true)
	}
	return q
}

// passedUpGuaranteed mirrors checkQueueResource: a queue reports its own guaranteed or, when that is zero,
// the sum reported by its children.
func passedUpGuaranteed(q configs.QueueConfig) Res {
	own := Res{}
	for k, v := range q.Resources.Guaranteed {
		var n int64
		_, _ = fmt.Sscanf(strings.TrimSuffix(v, "m"), "%d", &n)
		own[k] = n
	}
	if !own.IsZero() {
		return own
	}
	sum := Res{}
	for _, c := range q.Queues {
		sum.AddIn(passedUpGuaranteed(c))
	}
	return sum
}

func (g *confGen) genTemplate(path string, eff Res, maxApps uint64) configs.ChildTemplate {
	tm := configs.ChildTemplate{}
	mx := Res{}
	for _, k := range ResTypes {
		if rapid.IntRange(0, 9).Draw(g.t, "tmpl-has-"+k+path) < 5 {
			hi := int64(20)
			if v, ok := eff[k]; ok && v < hi {
				hi = v
			}
			if hi >= 1 {
				mx[k] = rapid.Int64Range(1, hi).Draw(g.t, "tmpl-"+k+path)
			}
		}
	}
	if len(mx) > 0 {
		tm.Resources.Max = mx.ConfMap()
	}
	if maxApps != 0 {
		tm.MaxApplications = rapid.Uint64Range(1, maxApps).Draw(g.t, "tmpl-apps-"+path)
	} else if rapid.Bool().Draw(g.t, "tmpl-hasapps-"+path) {
		tm.MaxApplications = rapid.Uint64Range(1, 3).Draw(g.t, "tmpl-apps-"+path)
	}
	if rapid.Bool().Draw(g.t, "tmpl-props-"+path) {
		tm.Properties = map[string]string{configs.ApplicationSortPriority: "disabled"}
	}
	return tm
}

// GenConf draws a configuration that is valid by construction.
func GenConf(t *rapid.T, o ConfOpts) *configs.SchedulerConfig {
	g := &confGen{t: t, o: o}
	if g.o.MaxDepth < 1 {
		g.o.MaxDepth = 1
	}
	root := configs.QueueConfig{Name: "root", Parent: true, SubmitACL: "*"}
	lim := limitCtx{userRes: map[string]Res{}, groupRes: map[string]Res{}, userApps: map[string]uint64{}, groupApps: map[string]uint64{}}
	if o.MaxApps && rapid.IntRange(0, 9).Draw(t, "root-maxapps") < 2 {
		root.MaxApplications = rapid.Uint64Range(2, 5).Draw(t, "root-maxapps-v")
	}
	root.Limits, lim = g.genLimits("root", nil, root.MaxApplications, true, lim)
	root.Properties = g.genProps("root", false)
	n := rapid.IntRange(1, 3).Draw(t, "root-children")
	if o.WideTrees {
		n = rapid.IntRange(3, 5).Draw(t, "root-children-wide")
	}
	used := map[string]bool{}
	for i := 0; i < n; i++ {
		cn := rapid.SampledFrom(queueNamePool).Draw(t, fmt.Sprintf("root-child-%d", i))
		if used[strings.ToLower(cn)] {
			continue
		}
		used[strings.ToLower(cn)] = true
		root.Queues = append(root.Queues, g.genQueue(cn, "root", 1, Res{}, root.MaxApplications, Res{}, lim))
	}
	part := configs.PartitionConfig{Name: "default", Queues: []configs.QueueConfig{root}}
	part.PlacementRules = []configs.PlacementRule{{Name: "provided", Create: false}}
	if o.Templates {
		// a dynamic parent with a template: applications with queue root.dyn.<x> create leaf queues
		dyn := configs.QueueConfig{Name: "dyn", Parent: true}
		if root.MaxApplications != 0 {
			dyn.MaxApplications = root.MaxApplications
		}
		dyn.ChildTemplate = g.genTemplate("root.dyn", Res{}, dyn.MaxApplications)
		if !used["dyn"] {
			part.Queues[0].Queues = append(part.Queues[0].Queues, dyn)
		}
		part.PlacementRules = []configs.PlacementRule{{Name: "provided", Create: true}}
	}
	if rapid.Bool().Draw(t, "nodesort-binpacking") {
		part.NodeSortPolicy.Type = "binpacking"
	} else {
		part.NodeSortPolicy.Type = "fair"
	}
	if rapid.IntRange(0, 3).Draw(t, "nodesort-weights") == 0 {
		part.NodeSortPolicy.ResourceWeights = map[string]float64{"memory": float64(rapid.IntRange(0, 3).Draw(t, "w-mem")), "vcore": float64(rapid.IntRange(1, 3).Draw(t, "w-cpu"))}
	}
	tr, fl := true, false
	if o.Preemption {
		part.Preemption.Enabled = &tr
	} else if rapid.IntRange(0, 3).Draw(t, "preempt-off") == 0 {
		part.Preemption.Enabled = &fl
	}
	if o.QuotaPreempt && rapid.IntRange(0, 3).Draw(t, "quotapreempt-on") != 0 {
		part.Preemption.QuotaPreemptionEnabled = &tr
	}
	return &configs.SchedulerConfig{Partitions: []configs.PartitionConfig{part}}
}

// LeafPaths lists the configured leaf queue paths (lower case) and the configured parents.
func LeafPaths(c *configs.SchedulerConfig) (leaves []string, parents []string) {
	var walk func(q configs.QueueConfig, prefix string)
	walk = func(q configs.QueueConfig, prefix string) {
		p := strings.ToLower(q.Name)
		if prefix != "" {
			p = prefix + "." + p
		}
		if q.Parent || len(q.Queues) > 0 {
			parents = append(parents, p)
			for _, c := range q.Queues {
				walk(c, p)
			}
		} else {
			leaves = append(leaves, p)
		}
	}
	for _, q := range c.Partitions[0].Queues {
		walk(q, "")
	}
	sort.Strings(leaves)
	sort.Strings(parents)
	return
}

// CloneConf deep copies a configuration (through YAML).
func CloneConf(c *configs.SchedulerConfig) *configs.SchedulerConfig {
	out := &configs.SchedulerConfig{}
	if err := yaml.Unmarshal([]byte(MarshalConf(c)), out); err != nil {
		panic(err)
	}
	return out
}

// ValidConf tells whether the repository's validator accepts the configuration.
func ValidConf(c *configs.SchedulerConfig) bool {
	_, err := configs.LoadSchedulerConfigFromByteArray([]byte(MarshalConf(c)))
	return err == nil
}

func walkQueues2(q *configs.QueueConfig, f func(q *configs.QueueConfig)) {
	f(q)
	for i := range q.Queues {
		walkQueues2(&q.Queues[i], f)
	}
}

// MutateLimits returns a variation of the configuration in which user/group limits were dropped, changed or added
// (queue tree unchanged). The result is valid; when a mutation is refused by the validator the input is returned.
func MutateLimits(t *rapid.T, c *configs.SchedulerConfig) *configs.SchedulerConfig {
	return MutateLimitsKinds(t, c, []int{0, 1, 2, 3, 4, 5})
}

// MutateLimitsKinds restricts the mutation kinds: 0,1 drop one entry; 2 drop all entries of a queue; 3 change the values
// of an entry; 4 add a user entry (named or wildcard); 5 add a group entry.
func MutateLimitsKinds(t *rapid.T, c *configs.SchedulerConfig, kinds []int) *configs.SchedulerConfig {
	out := CloneConf(c)
	var qs []*configs.QueueConfig
	walkQueues2(&out.Partitions[0].Queues[0], func(q *configs.QueueConfig) { qs = append(qs, q) })
	n := rapid.IntRange(1, 3).Draw(t, "limit-mutations")
	for i := 0; i < n; i++ {
		q := qs[rapid.IntRange(0, len(qs)-1).Draw(t, "mut-queue")]
		switch rapid.SampledFrom(kinds).Draw(t, "mut-kind") {
		case 0, 1: // drop one entry
			if len(q.Limits) > 0 {
				j := rapid.IntRange(0, len(q.Limits)-1).Draw(t, "mut-drop")
				q.Limits = append(append([]configs.Limit{}, q.Limits[:j]...), q.Limits[j+1:]...)
			}
		case 2: // drop all
			q.Limits = nil
		case 3: // change values of one entry (lower, so that it stays within the ancestors)
			if len(q.Limits) > 0 {
				j := rapid.IntRange(0, len(q.Limits)-1).Draw(t, "mut-change")
				for k, v := range q.Limits[j].MaxResources {
					var x int64
					_, _ = fmt.Sscanf(strings.TrimSuffix(v, "m"), "%d", &x)
					if x > 1 {
						x = rapid.Int64Range(1, x).Draw(t, "mut-val")
					}
					if k == "vcore" {
						q.Limits[j].MaxResources[k] = fmt.Sprintf("%dm", x)
					} else {
						q.Limits[j].MaxResources[k] = fmt.Sprintf("%d", x)
					}
				}
				if q.Limits[j].MaxApplications > 1 {
					q.Limits[j].MaxApplications = rapid.Uint64Range(1, q.Limits[j].MaxApplications).Draw(t, "mut-apps")
				}
			}
		case 4: // add a named user entry in front, or a user wildcard at the end
			name := rapid.SampledFrom(append(append([]string{}, Users...), "*")).Draw(t, "mut-name")
			l := configs.Limit{Limit: "added", Users: []string{name}, MaxApplications: rapid.Uint64Range(1, 2).Draw(t, "mut-newapps"),
				MaxResources: map[string]string{"memory": fmt.Sprintf("%d", rapid.Int64Range(1, 6).Draw(t, "mut-newmem"))}}
			dup := false
			for _, e := range q.Limits {
				for _, u := range e.Users {
					if u == name {
						dup = true
					}
				}
			}
			if !dup {
				if name == "*" {
					q.Limits = append(q.Limits, l)
				} else {
					q.Limits = append([]configs.Limit{l}, q.Limits...)
				}
			}
		case 5: // add a named group entry in front
			name := rapid.SampledFrom(Groups).Draw(t, "mut-gname")
			l := configs.Limit{Limit: "added-g", Groups: []string{name}, MaxApplications: rapid.Uint64Range(1, 2).Draw(t, "mut-newgapps"),
				MaxResources: map[string]string{"memory": fmt.Sprintf("%d", rapid.Int64Range(1, 6).Draw(t, "mut-newgmem"))}}
			dup := false
			for _, e := range q.Limits {
				for _, g := range e.Groups {
					if g == name {
						dup = true
					}
				}
			}
			if !dup {
				q.Limits = append([]configs.Limit{l}, q.Limits...)
			}
		}
	}
	if !ValidConf(out) {
		return c
	}
	return out
}

// MutateConf returns a variation of the current configuration for a Reload op: limits, properties, quotas and
// max-applications changed, queues removed / added back / added, placement rules and node sorting changed. About one
// in five results is deliberately broken (rejected by validation, or only by the dry run of the new placement rules).
func MutateConf(t *rapid.T, cur, initial *configs.SchedulerConfig) *configs.SchedulerConfig {
	if rapid.IntRange(0, 19).Draw(t, "reload-identical") == 0 {
		return CloneConf(cur)
	}
	out := CloneConf(cur)
	part := &out.Partitions[0]
	root := &part.Queues[0]
	type ref struct {
		q      *configs.QueueConfig
		parent *configs.QueueConfig
		depth  int
	}
	var all []ref
	var collect func(q, parent *configs.QueueConfig, d int)
	collect = func(q, parent *configs.QueueConfig, d int) {
		all = append(all, ref{q, parent, d})
		for i := range q.Queues {
			collect(&q.Queues[i], q, d+1)
		}
	}
	n := rapid.IntRange(1, 3).Draw(t, "reload-mutations")
	for i := 0; i < n; i++ {
		all = nil
		collect(root, nil, 0)
		r := all[rapid.IntRange(0, len(all)-1).Draw(t, "reload-queue")]
		switch rapid.IntRange(0, 11).Draw(t, "reload-kind") {
		case 0: // properties
			if r.q.Properties == nil {
				r.q.Properties = map[string]string{}
			}
			switch rapid.IntRange(0, 5).Draw(t, "prop") {
			case 0:
				r.q.Properties[configs.ApplicationSortPriority] = rapid.SampledFrom([]string{"enabled", "disabled"}).Draw(t, "prop-v")
			case 1:
				r.q.Properties[configs.PriorityOffset] = fmt.Sprintf("%d", rapid.IntRange(-3, 3).Draw(t, "prop-off"))
			case 2:
				r.q.Properties[configs.PriorityPolicy] = rapid.SampledFrom([]string{"fence", "default"}).Draw(t, "prop-pp")
			case 3:
				r.q.Properties[configs.PreemptionPolicy] = rapid.SampledFrom([]string{"fence", "default", "disabled"}).Draw(t, "prop-pre")
			case 4:
				r.q.Properties["custom.key"] = rapid.SampledFrom([]string{"a", "b"}).Draw(t, "prop-custom")
			default:
				r.q.Properties = nil
			}
		case 1: // lower or raise a maximum (may become invalid: that is a rejected reload)
			if r.depth > 0 {
				k := rapid.SampledFrom(ResTypes).Draw(t, "max-type")
				if r.q.Resources.Max == nil {
					r.q.Resources.Max = map[string]string{}
				}
				if rapid.IntRange(0, 4).Draw(t, "max-drop") == 0 {
					delete(r.q.Resources.Max, k)
				} else {
					r.q.Resources.Max[k] = Res{k: rapid.Int64Range(1, 30).Draw(t, "max-v")}.ConfMap()[k]
				}
				if len(r.q.Resources.Max) == 0 {
					r.q.Resources.Max = nil
				}
			}
		case 2: // guaranteed
			if r.depth > 0 {
				k := rapid.SampledFrom(ResTypes).Draw(t, "guar-type")
				if r.q.Resources.Guaranteed == nil {
					r.q.Resources.Guaranteed = map[string]string{}
				}
				r.q.Resources.Guaranteed[k] = Res{k: rapid.Int64Range(1, 10).Draw(t, "guar-v")}.ConfMap()[k]
			}
		case 3: // max applications
			r.q.MaxApplications = rapid.Uint64Range(0, 4).Draw(t, "apps-v")
		case 4, 5: // remove a queue (with its subtree), or turn a parent into a leaf (all of its children leave the configuration)
			if r.parent != nil && len(r.q.Queues) > 0 && rapid.IntRange(0, 2).Draw(t, "parent-to-leaf") == 0 {
				r.q.Queues = nil
				r.q.Parent = false
				break
			}
			if r.parent != nil {
				for j := range r.parent.Queues {
					if &r.parent.Queues[j] == r.q {
						r.parent.Queues = append(append([]configs.QueueConfig{}, r.parent.Queues[:j]...), r.parent.Queues[j+1:]...)
						break
					}
				}
			}
		case 6, 7: // bring back a queue of the initial configuration that is gone, or add a new one
			var missing []configs.QueueConfig
			var find func(iq configs.QueueConfig, cq *configs.QueueConfig)
			find = func(iq configs.QueueConfig, cq *configs.QueueConfig) {
				for _, ic := range iq.Queues {
					var match *configs.QueueConfig
					for j := range cq.Queues {
						if strings.EqualFold(cq.Queues[j].Name, ic.Name) {
							match = &cq.Queues[j]
						}
					}
					if match == nil {
						if cq == r.q {
							missing = append(missing, ic)
						}
						continue
					}
					find(ic, match)
				}
			}
			if initial != nil {
				var locate func(iq configs.QueueConfig, cq *configs.QueueConfig)
				locate = find
				locate(initial.Partitions[0].Queues[0], root)
			}
			if len(missing) > 0 && rapid.Bool().Draw(t, "re-add") {
				r.q.Queues = append(r.q.Queues, missing[rapid.IntRange(0, len(missing)-1).Draw(t, "re-add-which")])
				r.q.Parent = true
			} else {
				name := rapid.SampledFrom([]string{"n1", "n2", "a", "q"}).Draw(t, "new-name")
				dup := false
				for _, c := range r.q.Queues {
					if strings.EqualFold(c.Name, name) {
						dup = true
					}
				}
				if !dup || rapid.IntRange(0, 3).Draw(t, "dup-anyway") == 0 {
					r.q.Queues = append(r.q.Queues, configs.QueueConfig{Name: name})
					r.q.Parent = true
				}
			}
		case 8: // limits
			m := MutateLimitsKinds(t, out, []int{0, 1, 2, 3, 4, 5})
			out = m
			part = &out.Partitions[0]
			root = &part.Queues[0]
		case 9: // node sorting policy
			part.NodeSortPolicy.Type = rapid.SampledFrom([]string{"fair", "binpacking"}).Draw(t, "nsp")
			if rapid.Bool().Draw(t, "nsp-weights") {
				part.NodeSortPolicy.ResourceWeights = map[string]float64{"memory": float64(rapid.IntRange(0, 3).Draw(t, "nsp-mem")), "vcore": float64(rapid.IntRange(1, 3).Draw(t, "nsp-cpu"))}
			} else {
				part.NodeSortPolicy.ResourceWeights = nil
			}
		case 10: // placement rules: valid ones, and ones only the dry run of the placement manager refuses
			switch rapid.IntRange(0, 3).Draw(t, "rules") {
			case 0:
				part.PlacementRules = []configs.PlacementRule{{Name: "provided", Create: true}}
			case 1:
				part.PlacementRules = []configs.PlacementRule{{Name: "provided"}, {Name: "user", Create: true, Parent: &configs.PlacementRule{Name: "fixed", Value: "root.dyn", Create: true}}}
			case 2:
				part.PlacementRules = append([]configs.PlacementRule{{Name: "nosuchrule"}}, part.PlacementRules...)
			default:
				part.PlacementRules = append(part.PlacementRules, configs.PlacementRule{Name: "tag"})
			}
		default: // ACLs
			r.q.SubmitACL = rapid.SampledFrom([]string{"*", "u1 g1", "", " g2"}).Draw(t, "acl")
		}
	}
	return out
}

// PreemptionScenarioConf builds the configuration queue preemption is about: two to four leaf queues (flat, or two of
// them under a parent) with a small guaranteed share for memory and vcore, no maxima, a preemption delay of 1ms.
// Nodes are filled by FillNodes afterwards, so some leaves end up above and some below their share.
func PreemptionScenarioConf(t *rapid.T, quotaPreempt bool) *configs.SchedulerConfig {
	names := append([]string{}, queueNamePool...)
	k := rapid.IntRange(2, 4).Draw(t, "scn-leaves")
	leaf := func(i int) configs.QueueConfig {
		q := configs.QueueConfig{Name: names[i], Properties: map[string]string{configs.PreemptionDelay: "1ms"}}
		if rapid.IntRange(0, 9).Draw(t, fmt.Sprintf("scn-guar-%d", i)) < 9 {
			g := rapid.Int64Range(2, 10).Draw(t, fmt.Sprintf("scn-guar-v-%d", i))
			q.Resources.Guaranteed = Res{"memory": g, "vcore": g}.ConfMap()
		}
		if rapid.IntRange(0, 19).Draw(t, fmt.Sprintf("scn-fence-%d", i)) == 0 {
			q.Properties[configs.PreemptionPolicy] = "fence"
		}
		if rapid.IntRange(0, 5).Draw(t, fmt.Sprintf("scn-prio-fence-%d", i)) == 0 {
			// a priority fenced sibling: its own tasks are compared through the offset, the others are not affected
			q.Properties[configs.PriorityPolicy] = "fence"
			q.Properties[configs.PriorityOffset] = fmt.Sprintf("%d", rapid.IntRange(-2, 2).Draw(t, fmt.Sprintf("scn-prio-offset-%d", i)))
		}
		if rapid.IntRange(0, 14).Draw(t, fmt.Sprintf("scn-max-%d", i)) == 0 {
			m := rapid.Int64Range(10, 30).Draw(t, fmt.Sprintf("scn-max-v-%d", i))
			q.Resources.Max = Res{"memory": m, "vcore": m}.ConfMap()
		}
		return q
	}
	root := configs.QueueConfig{Name: "root", Parent: true, SubmitACL: "*"}
	if rapid.Bool().Draw(t, "scn-nested") && k >= 3 {
		parent := configs.QueueConfig{Name: "grp", Parent: true}
		parent.Queues = []configs.QueueConfig{leaf(0), leaf(1)}
		if rapid.IntRange(0, 3).Draw(t, "scn-parent-guar") == 0 {
			// at least what the children promise together
			g := rapid.Int64Range(0, 6).Draw(t, "scn-parent-guar-extra")
			for _, ch := range parent.Queues {
				if r, err := resources.NewResourceFromConf(ch.Resources.Guaranteed); err == nil && r != nil {
					g += int64(r.Resources["memory"])
				}
			}
			if g > 0 {
				parent.Resources.Guaranteed = Res{"memory": g, "vcore": g}.ConfMap()
			}
		}
		root.Queues = append(root.Queues, parent)
		for i := 2; i < k; i++ {
			root.Queues = append(root.Queues, leaf(i))
		}
	} else {
		for i := 0; i < k; i++ {
			root.Queues = append(root.Queues, leaf(i))
		}
	}
	part := configs.PartitionConfig{Name: "default", Queues: []configs.QueueConfig{root}}
	part.PlacementRules = []configs.PlacementRule{{Name: "provided", Create: false}}
	part.NodeSortPolicy.Type = rapid.SampledFrom([]string{"fair", "binpacking"}).Draw(t, "scn-nodesort")
	tr := true
	part.Preemption.Enabled = &tr
	if quotaPreempt && rapid.Bool().Draw(t, "scn-quotapreempt") {
		part.Preemption.QuotaPreemptionEnabled = &tr
	}
	c := &configs.SchedulerConfig{Partitions: []configs.PartitionConfig{part}}
	if !ValidConf(c) {
		t.Fatalf("scenario configuration is not valid: %s", MarshalConf(c))
	}
	return c
}

// QuotaSqueeze returns a variation of the configuration in which the maximum of one configured leaf queue that holds
// allocations is set below (or further below) its usage and its quota preemption delay is (re)drawn: the reload
// sequence quota change preemption is about (lowering, lowering again before the delay elapsed, delay changes).
// usage: allocated resources per queue path (lower case). Returns nil when no queue qualifies.
func QuotaSqueeze(t *rapid.T, cur *configs.SchedulerConfig, usage map[string]Res) *configs.SchedulerConfig {
	out := CloneConf(cur)
	type ref struct {
		q    *configs.QueueConfig
		path string
	}
	var cands []ref
	var walk func(q *configs.QueueConfig, prefix string)
	walk = func(q *configs.QueueConfig, prefix string) {
		p := strings.ToLower(q.Name)
		if prefix != "" {
			p = prefix + "." + p
		}
		if !q.Parent && len(q.Queues) == 0 && usage[p]["memory"] > 1 {
			cands = append(cands, ref{q, p})
		}
		for i := range q.Queues {
			walk(&q.Queues[i], p)
		}
	}
	walk(&out.Partitions[0].Queues[0], "")
	if len(cands) == 0 {
		return nil
	}
	r := cands[rapid.IntRange(0, len(cands)-1).Draw(t, "squeeze-queue")]
	u := usage[r.path]
	if r.q.Resources.Max == nil {
		r.q.Resources.Max = map[string]string{}
	}
	for _, k := range []string{"memory", "vcore"} {
		if u[k] > 1 {
			r.q.Resources.Max[k] = Res{k: rapid.Int64Range(1, u[k]-1).Draw(t, "squeeze-"+k)}.ConfMap()[k]
		}
	}
	if r.q.Properties == nil {
		r.q.Properties = map[string]string{}
	}
	r.q.Properties[configs.QuotaPreemptionDelay] = rapid.SampledFrom([]string{"1ms", "1ms", "1h", "2h"}).Draw(t, "squeeze-delay")
	tr := true
	out.Partitions[0].Preemption.QuotaPreemptionEnabled = &tr
	if !ValidConf(out) {
		return nil
	}
	return out
}
