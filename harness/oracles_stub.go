package harness

func (w *World) oracleC06(pre *Snapshot, op Op, res *StepResult, post *Snapshot) {}
func (w *World) dispatchHostile(op Op)                                           {}
