package harness

func (w *World) dispatchHostile(op Op) {}
