package harness

import (
	"os"
	"strings"
	"sync"
	"sync/atomic"

	"go.uber.org/zap"
	"go.uber.org/zap/zapcore"

	"github.com/apache/yunikorn-core/pkg/log"
)

// countingCore discards all log output and counts the DPanic ("should not happen") messages of the core.
type countingCore struct{}

var (
	dpanicCount atomic.Int64
	dpanicMu    sync.Mutex
	dpanicLast  string
)

func (countingCore) Enabled(l zapcore.Level) bool        { return l >= zapcore.ErrorLevel }
func (c countingCore) With([]zapcore.Field) zapcore.Core { return c }
func (c countingCore) Check(e zapcore.Entry, ce *zapcore.CheckedEntry) *zapcore.CheckedEntry {
	if e.Level >= zapcore.DPanicLevel || (e.Level == zapcore.ErrorLevel && strings.Contains(e.Message, "POTENTIAL DEADLOCK")) {
		return ce.AddCore(e, c)
	}
	return ce
}
func (countingCore) Write(e zapcore.Entry, _ []zapcore.Field) error {
	if e.Level == zapcore.ErrorLevel {
		// the report of the lock tracker (go-deadlock) is logged by the core at error level
		dpanicMu.Lock()
		if len(lockReports) < 4 {
			lockReports = append(lockReports, e.Message)
		}
		dpanicMu.Unlock()
		return nil
	}
	dpanicCount.Add(1)
	dpanicMu.Lock()
	dpanicLast = e.Message
	dpanicMu.Unlock()
	return nil
}

var lockReports []string

// LockTrackerReports returns (and forgets) what the lock tracker reported so far.
func LockTrackerReports() []string {
	dpanicMu.Lock()
	defer dpanicMu.Unlock()
	out := lockReports
	lockReports = nil
	return out
}
func (countingCore) Sync() error { return nil }

var logOnce sync.Once

// LogConfig is the extra configuration passed with every registration / reload so that the logging
// callback of the core keeps the loggers quiet.
// It also keeps the event ring buffer small: an application that was rejected or completed holds a state timer (days)
// that keeps its event system alive, at the default capacity that is 800 KB per generated case until the process ends.
var LogConfig = map[string]string{"log.level": "DPANIC", "log.core.diagnostics.level": "ERROR", "event.ringBufferCapacity": "2000", "event.requestCapacity": "1000"}

// InitLogging silences the core: a production (non development) logger, so DPanic does not panic.
func InitLogging() {
	logOnce.Do(func() {
		cfg := zap.NewProductionConfig()
		logger := zap.New(countingCore{})
		if os.Getenv("VERIF_CORE_LOG") != "" {
			// debugging aid: the core logs to stderr
			cfg.Level = zap.NewAtomicLevelAt(zapcore.InfoLevel)
			cfg.Encoding = "console"
			if l, err := cfg.Build(); err == nil {
				logger = l
				LogConfig["log.level"] = "INFO"
			}
		}
		log.InitializeLogger(logger, &cfg)
		log.UpdateLoggingConfig(LogConfig)
	})
}

// DPanicCount returns the number of "should not happen" messages seen so far and the last message.
func DPanicCount() (int64, string) {
	dpanicMu.Lock()
	defer dpanicMu.Unlock()
	return dpanicCount.Load(), dpanicLast
}
