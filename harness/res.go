package harness

import (
	"fmt"
	"sort"
	"strings"

	"github.com/apache/yunikorn-core/pkg/common/resources"
	"github.com/apache/yunikorn-scheduler-interface/lib/go/si"
)

// Res is the harness' own resource vector: plain int64 map, missing type == 0 unless stated otherwise.
type Res map[string]int64

// ResTypes are the resource type names used by the world generators.
var ResTypes = []string{"memory", "vcore", "gpu"}

// SI converts to the protobuf form.
func (r Res) SI() *si.Resource {
	out := &si.Resource{Resources: map[string]*si.Quantity{}}
	for k, v := range r {
		out.Resources[k] = &si.Quantity{Value: v}
	}
	return out
}

// Core converts to the core resource type.
func (r Res) Core() *resources.Resource {
	out := resources.NewResource()
	for k, v := range r {
		out.Resources[k] = resources.Quantity(v)
	}
	return out
}

// FromCore converts a core resource (nil gives an empty vector). Zero entries are kept.
func FromCore(c *resources.Resource) Res {
	out := Res{}
	if c != nil {
		for k, v := range c.Resources {
			out[k] = int64(v)
		}
	}
	return out
}

// FromDAO converts a DAO map.
func FromDAO(m map[string]int64) Res {
	out := Res{}
	for k, v := range m {
		out[k] = v
	}
	return out
}

// Clone copies.
func (r Res) Clone() Res {
	out := Res{}
	for k, v := range r {
		out[k] = v
	}
	return out
}

// Add returns r + o.
func (r Res) Add(o Res) Res {
	out := r.Clone()
	for k, v := range o {
		out[k] += v
	}
	return out
}

// Sub returns r - o.
func (r Res) Sub(o Res) Res {
	out := r.Clone()
	for k, v := range o {
		out[k] -= v
	}
	return out
}

// AddIn adds in place.
func (r Res) AddIn(o Res) {
	for k, v := range o {
		r[k] += v
	}
}

// Eq is semantic equality: a missing type equals zero.
func (r Res) Eq(o Res) bool {
	for k, v := range r {
		if o[k] != v {
			return false
		}
	}
	for k, v := range o {
		if r[k] != v {
			return false
		}
	}
	return true
}

// IsZero: every type zero.
func (r Res) IsZero() bool {
	for _, v := range r {
		if v != 0 {
			return false
		}
	}
	return true
}

// HasNegative: any type below zero.
func (r Res) HasNegative() bool {
	for _, v := range r {
		if v < 0 {
			return true
		}
	}
	return false
}

// FitsIn: every type of r is <= avail (missing type in avail = 0).
func (r Res) FitsIn(avail Res) bool {
	for k, v := range r {
		if v > avail[k] {
			return false
		}
	}
	return true
}

// LEq: r <= o on every type of either (missing = 0).
func (r Res) LEq(o Res) bool {
	for k, v := range r {
		if v > o[k] {
			return false
		}
	}
	for k, v := range o {
		if r[k] > v {
			return false
		}
	}
	return true
}

func (r Res) String() string {
	keys := make([]string, 0, len(r))
	for k := range r {
		keys = append(keys, k)
	}
	sort.Strings(keys)
	parts := make([]string, 0, len(keys))
	for _, k := range keys {
		parts = append(parts, fmt.Sprintf("%s:%d", k, r[k]))
	}
	return "{" + strings.Join(parts, " ") + "}"
}

// Pruned drops zero entries.
func (r Res) Pruned() Res {
	out := Res{}
	for k, v := range r {
		if v != 0 {
			out[k] = v
		}
	}
	return out
}

// ConfMap renders the vector for a configuration file (plain numbers; vcore is in milli units there so
// the "m" suffix keeps the numeric value identical to what asks use).
func (r Res) ConfMap() map[string]string {
	if r == nil {
		return nil
	}
	out := map[string]string{}
	for k, v := range r {
		if k == "vcore" {
			out[k] = fmt.Sprintf("%dm", v)
		} else {
			out[k] = fmt.Sprintf("%d", v)
		}
	}
	return out
}
