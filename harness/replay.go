package harness

import (
	"fmt"
	"regexp"
	"strings"
	"time"
)

// Legal says whether a shim that follows the protocol could send op in the current state of the shim model.
// Generators only produce legal ops; the trace minimiser uses it to keep reduced traces legal.
func (w *World) Legal(op Op) bool {
	if w.ExcludedShape(op) != "" {
		return false
	}
	s := w.Shim
	liveNode := func(id string) bool { n := s.Nodes[id]; return n != nil && n.State == "accepted" }
	accepted := func(id string) bool { a := s.Apps[id]; return a != nil && a.State == "accepted" }
	switch op.Kind {
	case OpAddNode:
		return s.Nodes[op.Node] == nil
	case OpUpdNode, OpDrainNode, OpUndrainNode, OpDecomNode:
		return liveNode(op.Node)
	case OpAddApp:
		return s.Apps[op.App] == nil
	case OpRemoveApp:
		return accepted(op.App)
	case OpAddAsk:
		return accepted(op.App) && s.Keys[op.Key] == nil
	case OpUpdAsk:
		k := s.Keys[op.Key]
		return k != nil && k.State != KDead && k.App == op.App && k.Announced == ""
	case OpReportBound:
		k := s.Keys[op.Key]
		return accepted(op.App) && liveNode(op.Node) && (k == nil || (k.State == KOutstanding && k.App == op.App && k.Announced == ""))
	case OpRelease:
		// a plain release may name anything: duplicates and unknown keys are part of the protocol's fault model
		return op.Term == "STOPPED_BY_RM"
	case OpConfirm, OpDropConfirm:
		for _, c := range s.Pending {
			if c.App == op.App && c.Key == op.Key && c.Term == op.Term {
				return true
			}
		}
		return false
	case OpForeign:
		if f := s.Foreign[op.Key]; f != nil {
			return f.Node == op.Node && liveNode(op.Node)
		}
		return liveNode(op.Node)
	case OpForeignDel:
		return s.Foreign[op.Key] != nil
	case OpSetPred:
		return true
	case OpScheduleRace:
		return op.Race != ""
	case OpHostile:
		for _, n := range op.Need {
			kind, id, _ := strings.Cut(n, ":")
			switch kind {
			case "app-live":
				if _, live := w.Last.Apps[id]; !accepted(id) || !live {
					return false
				}
			case "app-gone":
				if a := s.Apps[id]; a == nil || (a.State != "removed" && a.State != "rejected") {
					return false
				}
			case "node-live":
				if !liveNode(id) {
					return false
				}
			case "node-gone":
				if n := s.Nodes[id]; n == nil || n.State != "removed" {
					return false
				}
			case "no-app":
				if _, ok := w.Last.Apps[id]; ok {
					return false
				}
			case "key-outstanding":
				k := s.Keys[id]
				if k == nil || k.State != KOutstanding {
					return false
				}
				a := w.Last.Apps[k.App]
				if a == nil || a.Asks[id] == nil || a.Asks[id].Allocated || !a.Asks[id].Res.Eq(k.Res) {
					return false
				}
			}
		}
		return true
	}
	return true
}

// ReplayWorld re-executes a recorded history on a fresh world (no PBT library involved). With strict set the
// replay stops and reports illegal=true as soon as an op is not legal for a protocol following shim.
func ReplayWorld(confYAML string, opts WorldOpts, ops []Op, epilogue bool, strict bool, checks ...string) (w *World, illegal bool, why string) {
	w, why = newWorldYAML(confYAML, opts, checks...)
	if w == nil {
		return nil, false, why
	}
	defer w.Close()
	for _, op := range ops {
		if w.Dead || len(w.Vios) > 0 {
			break
		}
		if strict && !w.Legal(op) {
			return w, true, "illegal op " + op.String()
		}
		w.Step(op)
	}
	if epilogue && !w.Dead && len(w.Vios) == 0 {
		w.Drain()
		if !w.Dead && len(w.Vios) == 0 {
			w.CheckAllZero()
		}
	}
	return w, false, ""
}

var (
	reNum   = regexp.MustCompile(`[0-9]+`)
	reBrace = regexp.MustCompile(`\{[^}]*\}`)
)

// Signature reduces a violation message to its shape (numbers, ids and resource vectors removed) so that the
// minimiser does not slide from one defect into another one.
func Signature(msg string) string {
	msg = firstLines(msg, 1)
	msg = reBrace.ReplaceAllString(msg, "{}")
	msg = reNum.ReplaceAllString(msg, "N")
	words := strings.Fields(msg)
	if len(words) > 14 {
		words = words[:14]
	}
	return strings.Join(words, " ")
}

// MinimizeTrace removes ops from a failing history while it stays legal and keeps failing the same way.
func MinimizeTrace(confYAML string, opts WorldOpts, ops []Op, epilogue bool, prop, msg string, budget time.Duration, also ...string) ([]Op, *World) {
	sig := Signature(msg)
	deadline := time.Now().Add(budget)
	var best *World
	// the core breaks ties by map iteration order, so a history may fail only sometimes: try a few times
	tries := 1
	fails := func(cand []Op) bool {
		for i := 0; i < tries; i++ {
			w, illegal, _ := ReplayWorld(confYAML, opts, cand, epilogue, true, append([]string{prop}, also...)...)
			if w == nil || illegal {
				return false
			}
			for _, v := range w.Vios {
				if v.Prop == prop && Signature(v.Msg) == sig {
					best = w
					return true
				}
			}
		}
		return false
	}
	// estimate how often the full history fails
	hits := 0
	for i := 0; i < 6; i++ {
		if fails(ops) {
			hits++
		}
	}
	if hits == 0 {
		return ops, nil
	}
	if hits < 6 {
		tries = 8
	}
	cur := append([]Op{}, ops...)
	// chunks first, then single ops, until a fixed point
	for chunk := len(cur) / 2; chunk >= 1; chunk /= 2 {
		for changed := true; changed; {
			changed = false
			for i := 0; i+chunk <= len(cur); {
				if time.Now().After(deadline) {
					return cur, best
				}
				cand := append(append([]Op{}, cur[:i]...), cur[i+chunk:]...)
				if fails(cand) {
					cur = cand
					changed = true
				} else {
					i++
				}
			}
			if chunk > 1 {
				break
			}
		}
	}
	// make sure best belongs to cur
	fails(cur)
	return cur, best
}

// KnownShape names the listed known finding whose excluded shape the history contains ("" if none).
// A counterexample tagged this way is reported as KNOWN-FINDING, anything else is a violation.
func KnownShape(prop string, w *World) string {
	return ""
}

// TryStart starts a new scheduler with the configuration; returns "" or why that failed (error or panic).
func TryStart(y string) (why string) {
	defer func() {
		if r := recover(); r != nil {
			why = fmt.Sprintf("panic: %v", r)
			// the world lock is still held by the failed start
			worldMu.TryLock()
			worldMu.Unlock()
		}
	}()
	w, msg := newWorldYAML(y, WorldOpts{NoPredicates: true})
	if w == nil {
		return "registration failed: " + msg
	}
	w.Close()
	return ""
}

// TryReload loads the configuration into a scheduler that runs the base configuration with an application and an
// allocation; returns "" or why that failed.
func TryReload(base, y string) string {
	w, _ := newWorldYAML(base, WorldOpts{NoPredicates: true})
	if w == nil {
		return "" // the base configuration is the harness' own: not this check's business
	}
	defer w.Close()
	for _, op := range []Op{
		{Kind: OpAddNode, Node: "node-1", Res: Res{"memory": 20, "vcore": 20}},
		{Kind: OpAddApp, App: "app-1", Queue: "root.a", User: "u1", Groups: []string{"g1"}},
		{Kind: OpAddAsk, App: "app-1", Key: "ask-1", Res: Res{"memory": 2, "vcore": 2}, AllowSelf: true},
		{Kind: OpAddAsk, App: "app-1", Key: "ask-2", Res: Res{"memory": 30, "vcore": 2}, AllowSelf: true},
		{Kind: OpSchedule},
	} {
		w.Step(op)
	}
	res := w.Step(Op{Kind: OpReload, Conf: y})
	if res.Panic != "" {
		return firstLines(res.Panic, 12)
	}
	if res.ReloadErr != "" {
		return "reload rejected: " + res.ReloadErr
	}
	// and the scheduler keeps working
	r2 := w.Step(Op{Kind: OpSchedule})
	if r2.Panic != "" {
		return "scheduling after the reload: " + firstLines(r2.Panic, 12)
	}
	return ""
}
