package harness

import (
	"encoding/json"
	"strings"

	"github.com/apache/yunikorn-core/pkg/common/configs"
	"github.com/apache/yunikorn-core/pkg/common/resources"
)

func asJSON(v interface{}) string {
	b, _ := json.Marshal(v)
	return string(b)
}

// refProperties is the reference for inherited queue properties: the parent's (already merged) properties pass a filter
// (priority policy and offset are not inherited, of the preemption policies only "disabled" is), the queue's own
// configured properties win.
func refProperties(parent map[string]string, own map[string]string) map[string]string {
	out := map[string]string{}
	for k, v := range parent {
		switch k {
		case configs.PriorityPolicy:
			v = "default"
		case configs.PriorityOffset:
			v = "0"
		case configs.PreemptionPolicy:
			if strings.ToLower(v) != "disabled" {
				v = "default"
			}
		}
		out[k] = v
	}
	for k, v := range own {
		out[k] = v
	}
	return out
}

type confQueue struct {
	path  string
	q     configs.QueueConfig
	props map[string]string
}

func flattenConf(c *configs.SchedulerConfig) map[string]*confQueue {
	out := map[string]*confQueue{}
	var walk func(q configs.QueueConfig, prefix string, parentProps map[string]string)
	walk = func(q configs.QueueConfig, prefix string, parentProps map[string]string) {
		p := strings.ToLower(q.Name)
		if prefix != "" {
			p = prefix + "." + p
		}
		var props map[string]string
		if prefix == "" {
			props = refProperties(nil, q.Properties)
		} else {
			props = refProperties(parentProps, q.Properties)
		}
		out[p] = &confQueue{path: p, q: q, props: props}
		for _, ch := range q.Queues {
			walk(ch, p, props)
		}
	}
	walk(c.Partitions[0].Queues[0], "", nil)
	return out
}

func confRes(m map[string]string) Res {
	if len(m) == 0 {
		return Res{}
	}
	r, err := resources.NewResourceFromConf(m)
	if err != nil {
		return Res{}
	}
	return FromCore(r)
}

func (w *World) oracleC16(pre *Snapshot, op Op, res *StepResult, post *Snapshot) {
	switch op.Kind {
	case OpReload:
		if res.ReloadErr != "" {
			w.Tag("c16-reload-rejected")
			if a, b := snapshotForCompare(pre), snapshotForCompare(post); a != b {
				w.vio("C16", "a rejected reload (%s) changed the observable state: %s", firstLines(res.ReloadErr, 1), firstDiff(a, b))
			}
			return
		}
		w.Tag("c16-reload-accepted")
		// running state is preserved
		if a, b := asJSON(pre.Apps), asJSON(post.Apps); a != b {
			w.vio("C16", "an accepted reload changed applications, asks, allocations or reservations: %s", firstDiff(indentJSON(pre.Apps), indentJSON(post.Apps)))
		}
		if a, b := asJSON(pre.Nodes), asJSON(post.Nodes); a != b {
			w.vio("C16", "an accepted reload changed the nodes: %s", firstDiff(indentJSON(pre.Nodes), indentJSON(post.Nodes)))
		}
		busy := 0
		for _, path := range SortedKeys(pre.Queues) {
			pq, q := pre.Queues[path], post.Queues[path]
			if q == nil {
				w.vio("C16", "queue %s disappeared in a reload (queues are removed by the cleaner, once empty)", path)
				continue
			}
			if !pq.Allocated.Eq(q.Allocated) || !pq.Pending.Eq(q.Pending) || !pq.Preempting.Eq(q.Preempting) {
				w.vio("C16", "reload changed the totals of queue %s: allocated %s -> %s, pending %s -> %s, preempting %s -> %s", path, pq.Allocated, q.Allocated, pq.Pending, q.Pending, pq.Preempting, q.Preempting)
			}
			if asJSON(pq.Apps) != asJSON(q.Apps) || pq.RunningApps != q.RunningApps || asJSON(pq.AllocatingAccepted) != asJSON(q.AllocatingAccepted) {
				w.vio("C16", "reload changed the applications of queue %s: %v running=%d allocating=%v -> %v running=%d allocating=%v", path, pq.Apps, pq.RunningApps, pq.AllocatingAccepted, q.Apps, q.RunningApps, q.AllocatingAccepted)
			}
			if !pq.Allocated.IsZero() {
				busy++
			}
		}
		if busy >= 2 {
			w.Tag("c16-reload-with-2-busy-queues")
		}
		// the new configuration is applied to every queue it defines
		want := flattenConf(w.Conf)
		for _, path := range SortedKeys(want) {
			cq := want[path]
			q := post.Queues[path]
			if q == nil {
				w.vio("C16", "queue %s is defined by the new configuration but does not exist after the reload", path)
				continue
			}
			if q.Status != "Active" {
				w.vio("C16", "queue %s is defined by the new configuration but is %s after the reload", path, q.Status)
			}
			if !q.Managed {
				w.vio("C16", "queue %s is defined by the new configuration but is not a managed queue after the reload", path)
			}
			if path != "root" {
				if m := confRes(cq.q.Resources.Max); !m.Eq(q.Max) || (len(cq.q.Resources.Max) == 0) != !q.MaxSet && !(len(m) > 0 && m.IsZero()) {
					w.vio("C16", "queue %s: maximum after the reload is %s (set=%v), the new configuration says %s", path, q.Max, q.MaxSet, cq.q.Resources.Max)
				}
				if g := confRes(cq.q.Resources.Guaranteed); !g.Eq(q.Guaranteed) {
					w.vio("C16", "queue %s: guaranteed after the reload is %s, the new configuration says %s", path, q.Guaranteed, cq.q.Resources.Guaranteed)
				}
			}
			if q.MaxApps != cq.q.MaxApplications {
				w.vio("C16", "queue %s: max applications after the reload is %d, the new configuration says %d", path, q.MaxApps, cq.q.MaxApplications)
			}
			if asJSON(q.Props) != asJSON(cq.props) && !(len(q.Props) == 0 && len(cq.props) == 0) {
				w.vio("C16", "queue %s: properties after the reload are %v, own and inherited properties of the new configuration give %v", path, q.Props, cq.props)
				if pp := pre.Queues[path]; pp != nil && asJSON(pp.Props) != asJSON(cq.props) {
					w.Tag("c16-inherited-property-changed")
				}
			}
			if pp := pre.Queues[path]; pp != nil && asJSON(pp.Props) != asJSON(q.Props) {
				w.Tag("c16-property-changed")
			}
		}
		// configured queues that are gone from the configuration drain
		for _, path := range SortedKeys(pre.Queues) {
			pq, q := pre.Queues[path], post.Queues[path]
			if q == nil || !pq.Managed || want[path] != nil {
				continue
			}
			w.Tag("c16-queue-removed-from-config")
			if len(pq.Apps) > 0 || !pq.Allocated.IsZero() {
				w.Tag("c16-non-empty-queue-removed-from-config")
			}
			if q.Status != "Draining" {
				w.vio("C16", "managed queue %s is not part of the new configuration but is %s after the reload (expected Draining)", path, q.Status)
			}
		}
	case OpAddApp:
		if app := post.Apps[op.App]; app != nil && pre.Apps[op.App] == nil {
			if pq := pre.Queues[app.Queue]; pq != nil && pq.Status == "Draining" {
				w.vio("C16", "application %s was accepted into queue %s which is draining", op.App, app.Queue)
			}
			for _, p := range PathPrefixes(app.Queue) {
				if pq := pre.Queues[p]; pq != nil && pq.Status == "Draining" && p != app.Queue {
					w.Tag("c16-app-below-draining-parent")
				}
			}
		}
	case OpCleanQueues:
		for _, path := range SortedKeys(pre.Queues) {
			pq := pre.Queues[path]
			if post.Queues[path] != nil {
				continue
			}
			w.Tag("c16-queue-cleaned")
			if pq.Status != "Draining" && pq.Managed {
				w.vio("C16", "the cleaner removed queue %s which is a configured queue in state %s", path, pq.Status)
			}
			if len(pq.Apps) > 0 || !pq.Allocated.IsZero() || !pq.Pending.IsZero() {
				w.vio("C16", "the cleaner removed queue %s which was not empty: applications %v allocated %s pending %s", path, pq.Apps, pq.Allocated, pq.Pending)
			}
			for _, c := range pq.Children {
				if post.Queues[c] != nil {
					w.vio("C16", "the cleaner removed queue %s while its child %s still exists", path, c)
				}
			}
		}
	}
	// a draining queue keeps serving its applications: nothing to assert per step beyond the other properties; count it
	if op.Kind == OpSchedule {
		for _, b := range newBindings(pre, post) {
			if a := post.Apps[b.A.App]; a != nil {
				if q := pre.Queues[a.Queue]; q != nil && q.Status == "Draining" {
					w.Tag("c16-allocation-in-draining-queue")
				}
			}
		}
	}
}

func indentJSON(v interface{}) string {
	b, _ := json.MarshalIndent(v, "", " ")
	return string(b)
}
