package harness

import (
	"fmt"
	"sort"

	"github.com/apache/yunikorn-core/pkg/rmproxy/rmevent"
	"github.com/apache/yunikorn-scheduler-interface/lib/go/si"
)

// Key states from the shim's point of view.
const (
	KOutstanding = "outstanding" // ask submitted, no allocation announced
	KBound       = "bound"       // allocation announced by the core (or reported as bound by the shim)
	KDead        = "dead"        // released / removed / rejected: the key must never come back
)

// ShimKey is what the shim knows about one allocation key.
type ShimKey struct {
	Key, App, State, Node string
	Spec                  Op     // the op that introduced the key (for replay after a restart)
	Res                   Res    // current resources as the shim last sent them
	Announced             string // termination type announced by the core and not yet confirmed
	EchoExpected          bool   // the shim reported the key as bound in this step: one NEW echo is legal
	Dying                 bool   // the shim asked for the release in this step
	BoundStep             int
}

// ShimApp is what the shim knows about one application.
type ShimApp struct {
	ID, State string // submitted, accepted, rejected, removed
	Spec      Op
	Answers   int
	States    []string // state updates received, in order
	Queue     string
}

// ShimNode is what the shim knows about one node.
type ShimNode struct {
	ID, State   string // submitted, accepted, rejected, removed
	Capacity    Res
	Schedulable bool
	Answers     int
}

// Confirm is a release announced by the core that the shim still has to confirm.
type Confirm struct{ App, Key, Term string }

// ForeignAlloc is a non-YuniKorn pod.
type ForeignAlloc struct {
	Key, Node string
	Res       Res
	Static    bool
}

// Shim is the shim side reference model: built only from what the harness sent and what the core announced.
type Shim struct {
	Keys    map[string]*ShimKey
	Apps    map[string]*ShimApp
	Nodes   map[string]*ShimNode
	Foreign map[string]*ForeignAlloc
	Pending []Confirm
	seq     int
	step    int
	// counters for non-triviality rules
	CoreReleases, LateConfirms, DupConfirms, Dropped int
	PreemptedKeys                                    map[string]int
}

// NewShim creates an empty model.
func NewShim() *Shim {
	return &Shim{Keys: map[string]*ShimKey{}, Apps: map[string]*ShimApp{}, Nodes: map[string]*ShimNode{}, Foreign: map[string]*ForeignAlloc{}, PreemptedKeys: map[string]int{}}
}

// NextID hands out globally unique ids.
func (s *Shim) NextID(prefix string) string {
	s.seq++
	return fmt.Sprintf("%s-%d", prefix, s.seq)
}

// BeginStep records what the shim sends.
func (s *Shim) BeginStep(op Op) {
	s.step++
	for _, k := range s.Keys {
		k.EchoExpected, k.Dying = false, false
	}
	s.noteOp(op)
}

// noteOp records what the shim sends with one request.
func (s *Shim) noteOp(op Op) {
	switch op.Kind {
	case OpAddNode:
		if _, ok := s.Nodes[op.Node]; !ok {
			s.Nodes[op.Node] = &ShimNode{ID: op.Node, State: "submitted", Capacity: op.Res.Clone(), Schedulable: !op.Drain}
		}
	case OpUpdNode:
		if n := s.Nodes[op.Node]; n != nil {
			n.Capacity = op.Res.Clone()
		}
	case OpDrainNode:
		if n := s.Nodes[op.Node]; n != nil {
			n.Schedulable = false
		}
	case OpUndrainNode:
		if n := s.Nodes[op.Node]; n != nil {
			n.Schedulable = true
		}
	case OpAddApp:
		if _, ok := s.Apps[op.App]; !ok {
			s.Apps[op.App] = &ShimApp{ID: op.App, State: "submitted", Spec: op}
		}
	case OpAddAsk:
		if _, ok := s.Keys[op.Key]; !ok {
			s.Keys[op.Key] = &ShimKey{Key: op.Key, App: op.App, State: KOutstanding, Spec: op, Res: op.Res.Clone()}
		}
	case OpUpdAsk:
		if k := s.Keys[op.Key]; k != nil {
			k.Res = op.Res.Clone()
		}
	case OpReportBound:
		k := s.Keys[op.Key]
		if k == nil {
			k = &ShimKey{Key: op.Key, App: op.App, State: KOutstanding, Spec: op, Res: op.Res.Clone()}
			s.Keys[op.Key] = k
		}
		k.EchoExpected = true
	case OpRelease, OpConfirm:
		if k := s.Keys[op.Key]; k != nil {
			k.Dying = true
		}
		if op.Key == "" {
			for _, k := range s.Keys {
				if k.App == op.App && k.State == KBound {
					k.Dying = true
				}
			}
		}
	case OpForeign:
		s.Foreign[op.Key] = &ForeignAlloc{Key: op.Key, Node: op.Node, Res: op.Res.Clone(), Static: op.Static}
	case OpForeignDel:
		delete(s.Foreign, op.Key)
	}
}

func (s *Shim) dropPending(key string) {
	out := s.Pending[:0]
	for _, c := range s.Pending {
		if c.Key != key {
			out = append(out, c)
		}
	}
	s.Pending = out
}

// Absorb consumes the SI traffic of a step and returns protocol violations (C04), judged only from the traffic.
func (s *Shim) Absorb(op Op, res *StepResult) []string {
	var vio []string
	appAnswers := map[string]int{}
	nodeAnswers := map[string]int{}
	for _, ev := range res.Events {
		switch v := ev.(type) {
		case *rmevent.RMNewAllocationsEvent:
			for _, a := range v.Allocations {
				k := s.Keys[a.AllocationKey]
				switch {
				case k == nil:
					vio = append(vio, fmt.Sprintf("new allocation announced for key %s the shim never submitted", a.AllocationKey))
					continue
				case k.State == KDead:
					vio = append(vio, fmt.Sprintf("new allocation announced for key %s which is no longer outstanding (released/removed earlier)", a.AllocationKey))
					continue
				case k.State == KBound:
					vio = append(vio, fmt.Sprintf("allocation key %s bound twice (on %s, now %s) without a release in between", a.AllocationKey, k.Node, a.NodeID))
					continue
				}
				if k.App != a.ApplicationID {
					vio = append(vio, fmt.Sprintf("allocation %s announced for application %s, submitted for %s", a.AllocationKey, a.ApplicationID, k.App))
				}
				app := s.Apps[k.App]
				if app == nil || app.State != "accepted" {
					st := "unknown"
					if app != nil {
						st = app.State
					}
					vio = append(vio, fmt.Sprintf("allocation %s announced for application %s which is %s", a.AllocationKey, k.App, st))
				}
				n := s.Nodes[a.NodeID]
				if n == nil || n.State != "accepted" {
					st := "unknown"
					if n != nil {
						st = n.State
					}
					vio = append(vio, fmt.Sprintf("allocation %s announced on node %q which is %s", a.AllocationKey, a.NodeID, st))
				}
				k.State, k.Node, k.BoundStep = KBound, a.NodeID, s.step
			}
		case *rmevent.RMReleaseAllocationEvent:
			for _, r := range v.ReleasedAllocations {
				k := s.Keys[r.AllocationKey]
				if k == nil {
					vio = append(vio, fmt.Sprintf("release (%s) announced for unknown key %s", r.TerminationType, r.AllocationKey))
					continue
				}
				if k.State == KDead {
					vio = append(vio, fmt.Sprintf("release (%s) announced for key %s which the shim no longer holds", r.TerminationType, r.AllocationKey))
					continue
				}
				if k.App != r.ApplicationID {
					vio = append(vio, fmt.Sprintf("release of %s names application %s, key belongs to %s", r.AllocationKey, r.ApplicationID, k.App))
				}
				switch r.TerminationType {
				case si.TerminationType_STOPPED_BY_RM:
					// consequence of a shim action in this step (release, application removal, node removal)
					k.State = KDead
					s.dropPending(k.Key)
				default:
					term := r.TerminationType.String()
					if r.TerminationType == si.TerminationType_PREEMPTED_BY_SCHEDULER {
						s.PreemptedKeys[k.Key]++
						if s.PreemptedKeys[k.Key] > 1 {
							vio = append(vio, fmt.Sprintf("victim %s announced as preempted %d times", k.Key, s.PreemptedKeys[k.Key]))
						}
					}
					if k.State == KOutstanding && r.TerminationType != si.TerminationType_TIMEOUT {
						vio = append(vio, fmt.Sprintf("release (%s) announced for %s which is not bound", term, k.Key))
					}
					s.CoreReleases++
					dup := false
					for _, c := range s.Pending {
						if c.Key == k.Key && c.Term == term {
							dup = true
						}
					}
					if !dup {
						s.Pending = append(s.Pending, Confirm{App: k.App, Key: k.Key, Term: term})
					}
					k.Announced = term
				}
			}
		case *rmevent.RMApplicationUpdateEvent:
			for _, a := range v.AcceptedApplications {
				appAnswers[a.ApplicationID]++
				if app := s.Apps[a.ApplicationID]; app != nil {
					app.Answers++
					if app.State == "submitted" {
						app.State = "accepted"
					}
				} else {
					vio = append(vio, "accepted answer for unknown application "+a.ApplicationID)
				}
			}
			for _, a := range v.RejectedApplications {
				appAnswers[a.ApplicationID]++
				if app := s.Apps[a.ApplicationID]; app != nil {
					app.Answers++
					if app.State == "submitted" {
						app.State = "rejected"
					}
					if a.Reason == "" {
						vio = append(vio, "application "+a.ApplicationID+" rejected without a reason")
					}
				} else {
					vio = append(vio, "rejected answer for unknown application "+a.ApplicationID)
				}
			}
			for _, a := range v.UpdatedApplications {
				if app := s.Apps[a.ApplicationID]; app != nil {
					app.States = append(app.States, a.State)
				}
			}
		case *rmevent.RMNodeUpdateEvent:
			for _, a := range v.AcceptedNodes {
				nodeAnswers[a.NodeID]++
				if n := s.Nodes[a.NodeID]; n != nil {
					n.Answers++
					if n.State == "submitted" {
						n.State = "accepted"
					}
				}
			}
			for _, a := range v.RejectedNodes {
				nodeAnswers[a.NodeID]++
				if n := s.Nodes[a.NodeID]; n != nil {
					n.Answers++
					if n.State == "submitted" {
						n.State = "rejected"
					}
				}
			}
		case *rmevent.RMRejectedAllocationEvent:
			for _, r := range v.RejectedAllocations {
				if k := s.Keys[r.AllocationKey]; k != nil && op.Kind != OpUpdAsk {
					if k.State == KOutstanding && op.Kind == OpAddAsk || op.Kind == OpReportBound && k.State == KOutstanding {
						k.State = KDead
					}
				}
			}
		}
	}
	// exactly one accepted-or-rejected answer per submitted application / node, in the step that submitted it
	switch op.Kind {
	case OpAddApp:
		if app := s.Apps[op.App]; app != nil && app.Spec.Kind == OpAddApp && app.Answers == 0 {
			vio = append(vio, fmt.Sprintf("application %s submitted, no accepted/rejected answer", op.App))
		}
		if appAnswers[op.App] > 1 {
			vio = append(vio, fmt.Sprintf("application %s got %d answers", op.App, appAnswers[op.App]))
		}
	case OpAddNode:
		if n := s.Nodes[op.Node]; n != nil && n.Answers == 0 {
			vio = append(vio, fmt.Sprintf("node %s created, no accepted/rejected answer", op.Node))
		}
		if nodeAnswers[op.Node] > 1 {
			vio = append(vio, fmt.Sprintf("node %s got %d answers", op.Node, nodeAnswers[op.Node]))
		}
	}
	for id, n := range appAnswers {
		if id != op.App || op.Kind != OpAddApp {
			vio = append(vio, fmt.Sprintf("unsolicited accepted/rejected answer (%d) for application %s", n, id))
		}
	}
	for id, n := range nodeAnswers {
		if id != op.Node || op.Kind != OpAddNode {
			vio = append(vio, fmt.Sprintf("unsolicited accepted/rejected answer (%d) for node %s", n, id))
		}
	}
	// the shim's own actions complete with the step
	switch op.Kind {
	case OpRelease, OpConfirm:
		for _, k := range s.Keys {
			if k.Dying {
				k.State = KDead
				if !(op.Kind == OpConfirm && op.Keep) {
					s.dropPending(k.Key)
				}
			}
		}
		if op.Kind == OpConfirm {
			if op.Keep {
				s.DupConfirms++
			}
		}
	case OpDropConfirm:
		s.dropPending(op.Key)
		s.Dropped++
	case OpRemoveApp:
		if app := s.Apps[op.App]; app != nil {
			app.State = "removed"
		}
		for _, k := range s.Keys {
			if k.App == op.App {
				k.State = KDead
				s.dropPending(k.Key)
			}
		}
	case OpDecomNode:
		if n := s.Nodes[op.Node]; n != nil && n.State == "accepted" {
			n.State = "removed"
		}
		for _, k := range s.Keys {
			if k.State == KBound && k.Node == op.Node {
				k.State = KDead
				s.dropPending(k.Key)
			}
		}
		for key, f := range s.Foreign {
			if f.Node == op.Node {
				delete(s.Foreign, key)
			}
		}
	}
	return vio
}

// Lists for generators ------------------------------------------------------------------------------

// AcceptedApps returns the ids of accepted, not removed applications.
func (s *Shim) AcceptedApps() []string {
	var out []string
	for id, a := range s.Apps {
		if a.State == "accepted" {
			out = append(out, id)
		}
	}
	sort.Strings(out)
	return out
}

// LiveNodes returns the accepted, not removed nodes.
func (s *Shim) LiveNodes() []string {
	var out []string
	for id, n := range s.Nodes {
		if n.State == "accepted" {
			out = append(out, id)
		}
	}
	sort.Strings(out)
	return out
}

// KeysIn returns the keys in the given state, sorted.
func (s *Shim) KeysIn(state string) []string {
	var out []string
	for id, k := range s.Keys {
		if k.State == state {
			out = append(out, id)
		}
	}
	sort.Strings(out)
	return out
}

// ForeignKeys returns the foreign allocation keys.
func (s *Shim) ForeignKeys() []string {
	return SortedKeys(s.Foreign)
}
