package harness

import (
	"fmt"
	"github.com/apache/yunikorn-core/pkg/metrics"
	"github.com/apache/yunikorn-core/pkg/webservice/dao"
	"runtime"
	"runtime/debug"
	"strings"
	"sync"
	"time"

	"pgregory.net/rapid"

	"github.com/apache/yunikorn-core/pkg/common/configs"
	"github.com/apache/yunikorn-core/pkg/events"
	"github.com/apache/yunikorn-core/pkg/plugins"
	"github.com/apache/yunikorn-core/pkg/rmproxy/rmevent"
	"github.com/apache/yunikorn-core/pkg/scheduler"
	"github.com/apache/yunikorn-core/pkg/scheduler/objects"
	"github.com/apache/yunikorn-core/pkg/scheduler/ugm"
	"github.com/apache/yunikorn-scheduler-interface/lib/go/si"
)

const (
	RmID     = "rm-1"
	PartName = "[rm-1]default"
)

// recorder is the RM side event handler: it records everything the core says and answers the synchronous
// notifications from a helper goroutine (the core sends on an unbuffered channel after HandleEvent returns).
type recorder struct {
	mu     sync.Mutex
	events []interface{}
	wg     sync.WaitGroup
}

func (r *recorder) HandleEvent(ev interface{}) {
	r.mu.Lock()
	r.events = append(r.events, ev)
	r.mu.Unlock()
	var ch chan *rmevent.Result
	switch v := ev.(type) {
	case *rmevent.RMNewAllocationsEvent:
		ch = v.Channel
	case *rmevent.RMReleaseAllocationEvent:
		ch = v.Channel
	}
	if ch != nil {
		r.wg.Add(1)
		go func() {
			defer r.wg.Done()
			select {
			case ch <- &rmevent.Result{Succeeded: true}:
			case <-time.After(30 * time.Second):
			}
		}()
	}
}

func (r *recorder) take() []interface{} {
	r.mu.Lock()
	defer r.mu.Unlock()
	out := r.events
	r.events = nil
	return out
}

// predPlugin is the shim's predicate callback: refuses the (allocation key, node) pairs it was told to refuse
// and remembers what it was asked in the current step.
type predPlugin struct {
	mu     sync.Mutex
	deny   map[string]bool // key|node
	calls  map[string]bool // key|node asked with allocate=true in this step -> last answer
	states []*si.UpdateContainerSchedulingStateRequest
}

func pk(key, node string) string { return key + "|" + node }

func (p *predPlugin) UpdateAllocation(*si.AllocationResponse) error   { return nil }
func (p *predPlugin) UpdateApplication(*si.ApplicationResponse) error { return nil }
func (p *predPlugin) UpdateNode(*si.NodeResponse) error               { return nil }
func (p *predPlugin) SendEvent([]*si.EventRecord)                     {}
func (p *predPlugin) UpdateContainerSchedulingState(r *si.UpdateContainerSchedulingStateRequest) {
	p.mu.Lock()
	defer p.mu.Unlock()
	p.states = append(p.states, r)
}
func (p *predPlugin) Predicates(args *si.PredicatesArgs) error {
	p.mu.Lock()
	defer p.mu.Unlock()
	ok := !p.deny[pk(args.AllocationKey, args.NodeID)]
	if args.Allocate {
		p.calls[pk(args.AllocationKey, args.NodeID)] = ok
	}
	if !ok {
		return fmt.Errorf("predicate refused %s on %s", args.AllocationKey, args.NodeID)
	}
	return nil
}
func (p *predPlugin) PreemptionPredicates(args *si.PreemptionPredicatesArgs) *si.PreemptionPredicatesResponse {
	p.mu.Lock()
	defer p.mu.Unlock()
	if p.deny[pk(args.AllocationKey, args.NodeID)] {
		return &si.PreemptionPredicatesResponse{Success: false, Index: -1}
	}
	return &si.PreemptionPredicatesResponse{Success: true, Index: args.StartIndex}
}

// WorldOpts are the knobs of one world.
type WorldOpts struct {
	ReserveNow    bool // reservation delay 0 (otherwise reservations never happen)
	ShortResvWait bool // reservation wait timeout tiny
	NoPredicates  bool // do not register the predicate plugin
	Hostile       bool // requests no protocol following shim would send are part of the history (C13)
}

// Violation is one oracle failure.
type Violation struct {
	Prop string
	Msg  string
}

// World is a synchronous driver around a real ClusterContext.
type World struct {
	CC          *scheduler.ClusterContext
	rec         *recorder
	Pred        *predPlugin
	Shim        *Shim
	Conf        *configs.SchedulerConfig // latest accepted configuration
	ConfY       string
	InitialConf string
	Opts        WorldOpts
	Last        *Snapshot // snapshot after the last step
	Trace       []Op
	Lines       []string // human readable trace
	Dead        bool     // a panic or hang happened: the world cannot continue
	Vios        []Violation
	Checks      map[string]bool   // enabled oracle sets by property id
	Alias       map[string]string // violations of the key property are reported under the value property
	StepNo      int
	inDrain     bool
	// statistics of the history, used for non-triviality rules and labels
	Tags      map[string]int
	Decisions int
	Excls     map[string]int // generator choices avoided because of listed known findings
	// timers etc.
	savedTimings objects.VerifTimings
	Inconclusive string
	// stuckTerminated names a terminated application that was still listed by the partition when settle gave up
	stuckTerminated string
	// ReloadGen produces the configuration for a Reload op (mutation of the current one); optional
	ReloadGen func(t *rapid.T, w *World) string
	// GroupTaint: groups whose tracked usage is not compared (listed known finding, see GroupUsageLostShape)
	GroupTaint map[string]bool
	AppTaint   map[string]bool
	// ResizedMidSwap: real asks the RM resized while they were replacing a placeholder
	ResizedMidSwap map[string]bool
}

var worldMu sync.Mutex // one world at a time: the core has process wide singletons

// NewWorld registers an RM with the configuration. Returns nil and the reason when registration fails.
func NewWorld(conf *configs.SchedulerConfig, opts WorldOpts, checks ...string) (*World, string) {
	return newWorldYAML(MarshalConf(conf), opts, checks...)
}

// OpenWorld registers an RM with the YAML configuration; the caller must Close the world.
func OpenWorld(y string, opts WorldOpts, checks ...string) (*World, string) {
	return newWorldYAML(y, opts, checks...)
}

func newWorldYAML(y string, opts WorldOpts, checks ...string) (*World, string) {
	conf, err := configs.LoadSchedulerConfigFromByteArray([]byte(y))
	if err != nil {
		return nil, err.Error()
	}
	worldMu.Lock()
	InitLogging()
	configs.SetConfigMap(LogConfig)
	events.Init()
	m := ugm.GetUserManager()
	m.ClearUserTrackers()
	m.ClearGroupTrackers()
	m.ClearConfigLimits()
	plugins.UnregisterSchedulerPlugins()
	w := &World{rec: &recorder{}, Pred: &predPlugin{deny: map[string]bool{}, calls: map[string]bool{}}, Opts: opts, Checks: map[string]bool{}, Tags: map[string]int{}}
	for _, c := range checks {
		if from, to, ok := strings.Cut(c, "=>"); ok {
			w.Checks[from] = true
			if w.Alias == nil {
				w.Alias = map[string]string{}
			}
			w.Alias[from] = to
			continue
		}
		w.Checks[c] = true
	}
	if !opts.NoPredicates {
		plugins.RegisterSchedulerPlugin(w.Pred)
	}
	lineRes = false
	if w.Checks["C19"] && Excluded("pending-tiebreak-not-weak-order") {
		lineRes = true
		w.Excl("pending-tiebreak-not-weak-order")
	}
	if (w.Checks["C07"] || w.Checks["C08"]) && Excluded("preemption-shortfall-check") {
		// listed known finding: with ask sizes that are all multiples of {memory:1 vcore:1} any two totals are comparable
		lineRes = true
		w.Excl("preemption-shortfall-check")
	}
	w.savedTimings = objects.VerifGetTimings()
	t := w.savedTimings
	t.CompletingTimeout = time.Hour
	t.PreemptAttemptFrequency = 0
	if opts.ReserveNow {
		t.ReservationDelay = 0
	} else {
		t.ReservationDelay = 1000 * time.Hour
	}
	if opts.ShortResvWait {
		t.ReservationWaitTimeout = time.Nanosecond
	}
	objects.VerifSetTimings(t)
	w.CC = scheduler.NewVerifClusterContext(w.rec)
	w.Shim = NewShim()
	w.InitialConf = y
	ch := make(chan *rmevent.Result, 1)
	w.CC.VerifDispatch(&rmevent.RMRegistrationEvent{Registration: &si.RegisterResourceManagerRequest{RmID: RmID, PolicyGroup: "queues", Version: "v1", Config: y, ExtraConfig: LogConfig}, Channel: ch})
	res := <-ch
	if !res.Succeeded {
		w.Close()
		return nil, res.Reason
	}
	w.Conf, w.ConfY = conf, y
	w.rec.take()
	w.Last = TakeSnapshot(w.CC, PartName)
	return w, ""
}

// Close stops the background services of the world and releases the process wide slot.
func (w *World) Close() {
	defer worldMu.Unlock()
	objects.VerifSetTimings(w.savedTimings)
	if w.CC != nil && !w.Dead {
		func() {
			defer func() { _ = recover() }()
			// the queue metrics of the core are registered per queue path in a process wide registry and never dropped:
			// worlds with dynamic queues (placement) would otherwise grow the process by ~250 KB per case
			for _, p := range w.CC.GetPartitionMapClone() {
				// pending timers (days for terminated applications) keep the whole instance alive: ~1 MB per case
				for _, list := range [][]*objects.Application{p.GetApplications(), p.GetCompletedApplications(), p.GetRejectedApplications()} {
					for _, a := range list {
						a.VerifStopTimers()
					}
				}
				var walk func(q dao.PartitionQueueDAOInfo)
				walk = func(q dao.PartitionQueueDAOInfo) {
					metrics.RemoveQueueMetrics(q.QueueName)
					for _, c := range q.Children {
						walk(c)
					}
				}
				walk(p.GetPartitionQueues())
			}
			w.CC.Stop()
			// the partitions are cleaned up in the background (applications and nodes removed, user and group usage given
			// back): the next world resets the process wide user manager, wait until that is over
			for i := 0; i < 2000 && len(w.CC.GetPartitionMapClone()) > 0; i++ {
				time.Sleep(time.Millisecond)
			}
		}()
	}
	plugins.UnregisterSchedulerPlugins()
}

func (w *World) part() *scheduler.PartitionContext {
	return w.CC.GetPartition(PartName)
}

func (w *World) vio(prop, format string, args ...interface{}) {
	if !w.Checks[prop] && !w.Checks["*"] {
		return
	}
	msg := fmt.Sprintf("step %d: ", w.StepNo) + fmt.Sprintf(format, args...)
	if to := w.Alias[prop]; to != "" {
		// the oracle of another property is used as a state-corruption detector for this one
		prop, msg = to, msg+" ["+prop+" invariant]"
	}
	w.Vios = append(w.Vios, Violation{Prop: prop, Msg: msg})
}

// Tag counts something that happened in this history.
func (w *World) Tag(name string) { w.Tags[name]++ }

// run executes f under recover and a watchdog. Returns panic text or "hang".
func (w *World) run(f func()) string {
	done := make(chan string, 1)
	go func() {
		defer func() {
			if r := recover(); r != nil {
				done <- fmt.Sprintf("panic: %v\n%s", r, debug.Stack())
				return
			}
			done <- ""
		}()
		f()
	}()
	select {
	case msg := <-done:
		return msg
	case <-time.After(20 * time.Second):
		buf := make([]byte, 1<<20)
		n := runtime.Stack(buf, true)
		return "hang: no return after 20s\n" + string(buf[:n])
	}
}

// settle waits for the asynchronous tails of a step: recorder replies, terminated-application callbacks and
// quota preemption runs. Returns false when the world did not settle in time.
func (w *World) settle() bool {
	doneCh := make(chan struct{})
	go func() { w.rec.wg.Wait(); close(doneCh) }()
	select {
	case <-doneCh:
	case <-time.After(10 * time.Second):
		return false
	}
	deadline := time.Now().Add(10 * time.Second)
	for {
		busy := false
		part := w.part()
		if part == nil {
			return true
		}
		w.stuckTerminated = ""
		for _, a := range part.GetApplications() {
			if a.IsCompleted() || a.IsFailed() {
				busy = true
				w.stuckTerminated = a.ApplicationID + " (" + a.CurrentState() + ")"
				break
			}
		}
		if !busy {
			busy = quotaRunning(part.VerifRoot())
		}
		if !busy {
			// a terminated callback may have sent releases or state changes: make sure those were answered
			w.rec.wg.Wait()
			return true
		}
		if time.Now().After(deadline) {
			return false
		}
		runtime.Gosched()
		time.Sleep(50 * time.Microsecond)
	}
}

func quotaRunning(q *objects.Queue) bool {
	if q.VerifQuotaPreemptionRunning() {
		return true
	}
	for _, c := range q.GetCopyOfChildren() {
		if quotaRunning(c) {
			return true
		}
	}
	return false
}

// TagAskLogs (diagnostics) tags the scheduling failure reasons the core logged on the pending asks.
func (w *World) TagAskLogs() {
	part := w.part()
	if part == nil {
		return
	}
	for _, a := range part.GetApplications() {
		for _, r := range a.GetAllRequests() {
			if r.IsAllocated() {
				continue
			}
			for _, e := range r.GetAllocationLog() {
				w.Tags["asklog: "+e.Message] += int(e.Count)
			}
		}
	}
}
