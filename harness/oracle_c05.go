package harness

import (
	"strings"

	"github.com/apache/yunikorn-core/pkg/common/configs"
	"github.com/apache/yunikorn-core/pkg/common/resources"
)

// LimitRef is the reference "limits of the latest accepted configuration".
type LimitRef struct {
	UserRes, GroupRes   map[string]map[string]Res    // queue path -> name (or "*") -> max resources (only when set)
	UserApps, GroupApps map[string]map[string]uint64 // queue path -> name (or "*") -> max applications (only when set)
}

// LimitsOf extracts the limits from a configuration.
func LimitsOf(c *configs.SchedulerConfig) *LimitRef {
	l := &LimitRef{UserRes: map[string]map[string]Res{}, GroupRes: map[string]map[string]Res{}, UserApps: map[string]map[string]uint64{}, GroupApps: map[string]map[string]uint64{}}
	var walk func(q configs.QueueConfig, prefix string)
	walk = func(q configs.QueueConfig, prefix string) {
		p := strings.ToLower(q.Name)
		if prefix != "" {
			p = prefix + "." + p
		}
		for _, lim := range q.Limits {
			var r Res
			if len(lim.MaxResources) > 0 {
				if cr, err := resources.NewResourceFromConf(lim.MaxResources); err == nil {
					r = FromCore(cr)
				}
			}
			put := func(resM map[string]map[string]Res, appM map[string]map[string]uint64, name string) {
				if r != nil {
					if resM[p] == nil {
						resM[p] = map[string]Res{}
					}
					resM[p][name] = r
				}
				if lim.MaxApplications != 0 {
					if appM[p] == nil {
						appM[p] = map[string]uint64{}
					}
					appM[p][name] = lim.MaxApplications
				}
			}
			for _, u := range lim.Users {
				put(l.UserRes, l.UserApps, u)
			}
			for _, g := range lim.Groups {
				put(l.GroupRes, l.GroupApps, g)
			}
		}
		for _, c := range q.Queues {
			walk(c, p)
		}
	}
	part := c.Partitions[0]
	root := part.Queues[0]
	if len(root.Limits) == 0 && len(part.Limits) > 0 {
		root.Limits = part.Limits
	}
	walk(root, "")
	return l
}

// a named limit entry overrides the wildcard entry of the same queue completely (resources and applications)
func (l *LimitRef) userNamed(p, u string) bool {
	_, a := l.UserRes[p][u]
	_, b := l.UserApps[p][u]
	return a || b
}

func (l *LimitRef) userRes(p, u string) (Res, bool) {
	if l.userNamed(p, u) {
		r, ok := l.UserRes[p][u]
		return r, ok
	}
	r, ok := l.UserRes[p]["*"]
	return r, ok
}

func (l *LimitRef) userApps(p, u string) (uint64, bool) {
	if l.userNamed(p, u) {
		r, ok := l.UserApps[p][u]
		return r, ok
	}
	r, ok := l.UserApps[p]["*"]
	return r, ok
}

func (w *World) oracleC05(pre *Snapshot, op Op, post *Snapshot, decision bool, binds []newBinding) {
	lim := LimitsOf(w.Conf)
	if decision {
		for _, b := range binds {
			if b.A.Foreign {
				continue
			}
			app := post.Apps[b.A.App]
			if app == nil {
				continue
			}
			ut := post.Users[app.User]
			if ut == nil {
				w.vio("C05", "allocation %s made for user %s who has no tracker", b.A.Key, app.User)
				continue
			}
			group := ut.AppGroups[app.ID]
			for _, p := range PathPrefixes(app.Queue) {
				if l, ok := lim.userRes(p, app.User); ok {
					w.Tag("c05-decision-under-user-limit")
					for k, v := range b.A.Res {
						// only a decision that raised the usage can have taken it above the limit (usage above a limit may
						// exist because of RM forced allocations; a placeholder replacement in flight adds nothing)
						var before int64
						if pu := pre.Users[app.User]; pu != nil {
							before = pu.Usage[p][k]
						}
						if lv, def := l[k]; def && v > 0 && ut.Usage[p][k] > lv && ut.Usage[p][k] > before {
							w.vio("C05", "scheduling %s took user %s in %s to %s=%d above the configured limit %d (latest configuration)", b.A.Key, app.User, p, k, ut.Usage[p][k], lv)
						}
					}
				}
				if group != "" {
					if l, ok := lim.GroupRes[p][group]; ok {
						w.Tag("c05-decision-under-group-limit")
						if gt := post.Groups[group]; gt != nil {
							for k, v := range b.A.Res {
								var before int64
								if pg := pre.Groups[group]; pg != nil {
									before = pg.Usage[p][k]
								}
								if lv, def := l[k]; def && v > 0 && gt.Usage[p][k] > lv && gt.Usage[p][k] > before {
									w.vio("C05", "scheduling %s took group %s in %s to %s=%d above the configured limit %d (latest configuration)", b.A.Key, group, p, k, gt.Usage[p][k], lv)
								}
							}
						}
					}
				}
				// admission: the running application list grew in this cycle
				var before []string
				if pu := pre.Users[app.User]; pu != nil {
					before = pu.Apps[p]
				}
				// listed finding completing-restart-bypasses-maxapps: an application that re-enters Running from Completing
				// (new ask, or the real ask of a reversed placeholder replacement becoming pending again) is not gated
				reentered := false
				if Excluded("ask-for-completing-app") {
					for i, st := range app.StateLog {
						if st == "Completing" && i+1 < len(app.StateLog) {
							reentered = true
						}
					}
					if reentered {
						w.Tag("c05-admission-skipped-known-finding")
					}
				}
				if !reentered && !contains(before, app.ID) && contains(ut.Apps[p], app.ID) {
					if m, ok := lim.userApps(p, app.User); ok {
						w.Tag("c05-admission-under-user-maxapps")
						if uint64(len(ut.Apps[p])) > m {
							w.vio("C05", "application %s admitted for user %s in %s: %d running applications, configured maximum %d", app.ID, app.User, p, len(ut.Apps[p]), m)
						}
					}
				}
				if group != "" {
					if gt := post.Groups[group]; gt != nil {
						var gbefore []string
						if pg := pre.Groups[group]; pg != nil {
							gbefore = pg.Apps[p]
						}
						if !reentered && !contains(gbefore, app.ID) && contains(gt.Apps[p], app.ID) {
							if m, ok := lim.GroupApps[p][group]; ok {
								w.Tag("c05-admission-under-group-maxapps")
								if uint64(len(gt.Apps[p])) > m {
									w.vio("C05", "application %s admitted for group %s in %s: %d running applications, configured maximum %d", app.ID, group, p, len(gt.Apps[p]), m)
								}
							}
						}
					}
				}
			}
		}
	}
	w.checkTrackedUsage(post)
}

// GroupUsageLostShape is the exclusion of the listed known finding "group usage reset / application links lost when a
// group limit is dropped by a reload".
const GroupUsageLostShape = "ugm-group-usage-lost-on-limit-drop"

// DroppedGroupLimits returns the groups (named or "*") that have a limit on some queue in the old configuration which
// the new configuration no longer has on that queue: the trigger of the listed finding.
func DroppedGroupLimits(o, n *LimitRef) []string {
	keys := func(l *LimitRef) map[string]bool {
		out := map[string]bool{}
		for p, m := range l.GroupRes {
			for g := range m {
				out[p+"|"+g] = true
			}
		}
		for p, m := range l.GroupApps {
			for g := range m {
				out[p+"|"+g] = true
			}
		}
		return out
	}
	nk := keys(n)
	seen := map[string]bool{}
	for k := range keys(o) {
		if !nk[k] {
			seen[k[strings.Index(k, "|")+1:]] = true
		}
	}
	return SortedKeys(seen)
}

// taintGroup: the group lost a limit in a reload (listed known finding): the manager resets the usage of the group and
// unlinks its applications, which are linked again (to this or another group of the user) without their usage when
// they are scheduled next. The group, and every group one of those applications is linked to later, is not compared.
func (w *World) taintGroup(g string, before *Snapshot) {
	if w.GroupTaint == nil {
		w.GroupTaint, w.AppTaint = map[string]bool{}, map[string]bool{}
	}
	w.GroupTaint[g] = true
	if before == nil {
		return
	}
	for _, ut := range before.Users {
		for app, ag := range ut.AppGroups {
			if ag == g {
				w.AppTaint[app] = true
			}
		}
	}
}

func (w *World) propagateGroupTaint(s *Snapshot) {
	if len(w.AppTaint) == 0 {
		return
	}
	for _, ut := range s.Users {
		for app, ag := range ut.AppGroups {
			if ag != "" && w.AppTaint[app] {
				w.GroupTaint[ag] = true
			}
		}
	}
}

// checkTrackedUsage: tracked usage per user/group and queue equals the sum of the live allocations of their
// applications there (real and placeholder).
func (w *World) checkTrackedUsage(s *Snapshot) {
	wantUser := map[string]map[string]Res{}
	wantGroup := map[string]map[string]Res{}
	add := func(m map[string]map[string]Res, name, p string, r Res) {
		if m[name] == nil {
			m[name] = map[string]Res{}
		}
		if m[name][p] == nil {
			m[name][p] = Res{}
		}
		m[name][p].AddIn(r)
	}
	for _, app := range s.Apps {
		total := Res{}
		for _, a := range app.Allocs {
			total.AddIn(a.Res)
		}
		if total.IsZero() {
			continue
		}
		group := ""
		if ut := s.Users[app.User]; ut != nil {
			group = ut.AppGroups[app.ID]
		}
		for _, p := range PathPrefixes(app.Queue) {
			add(wantUser, app.User, p, total)
			if group != "" {
				add(wantGroup, group, p, total)
			}
		}
	}
	cmp := func(kind string, have map[string]*TrackSnap, want map[string]map[string]Res) {
		for name, t := range have {
			if kind == "group" && w.GroupTaint[name] {
				w.Tag("c05-group-usage-skipped-known-finding")
				continue
			}
			for p, r := range t.Usage {
				exp := want[name][p]
				if exp == nil {
					exp = Res{}
				}
				if !r.Eq(exp) {
					w.vio("C05", "%s %s tracked usage in %s is %s, live allocations of its applications there sum to %s", kind, name, p, r, exp)
				}
			}
		}
		for name, paths := range want {
			if kind == "group" && w.GroupTaint[name] {
				continue
			}
			for p, exp := range paths {
				var got Res
				if t := have[name]; t != nil {
					got = t.Usage[p]
				}
				if got == nil {
					got = Res{}
				}
				if !got.Eq(exp) {
					w.vio("C05", "%s %s tracked usage in %s is %s, live allocations of its applications there sum to %s", kind, name, p, got, exp)
				}
			}
		}
	}
	cmp("user", s.Users, wantUser)
	cmp("group", s.Groups, wantGroup)
}

// CheckTrackersDrained is the C05 part of the drain epilogue.
func (w *World) CheckTrackersDrained() {
	s := w.Last
	for name, u := range s.Users {
		for p, apps := range u.Apps {
			if len(apps) > 0 {
				w.vio("C05", "after every application was removed user %s still tracks %v as running in %s", name, apps, p)
			}
		}
	}
	for name, g := range s.Groups {
		for p, apps := range g.Apps {
			if len(apps) > 0 {
				w.vio("C05", "after every application was removed group %s still tracks %v as running in %s", name, apps, p)
			}
		}
	}
}

// UserResFor returns the maximum resources in force for the user on the queue path according to the configuration.
func (l *LimitRef) UserResFor(p, u string) (Res, bool) { return l.userRes(p, u) }

// UserAppsFor returns the maximum applications in force for the user on the queue path.
func (l *LimitRef) UserAppsFor(p, u string) (uint64, bool) { return l.userApps(p, u) }
