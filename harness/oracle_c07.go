package harness

import (
	"strings"

	"github.com/apache/yunikorn-core/pkg/rmproxy/rmevent"
	"github.com/apache/yunikorn-scheduler-interface/lib/go/si"
)

type victimRef struct {
	key, app string
	forAsk   string // the ask the core says it preempts for (release message), "" when the message names none
}

func preemptedIn(res *StepResult) []victimRef {
	var out []victimRef
	for _, ev := range res.Events {
		if r, ok := ev.(*rmevent.RMReleaseAllocationEvent); ok {
			for _, ra := range r.ReleasedAllocations {
				if ra.TerminationType == si.TerminationType_PREEMPTED_BY_SCHEDULER {
					v := victimRef{key: ra.AllocationKey, app: ra.ApplicationID}
					if i := strings.LastIndex(ra.Message, "ask: "); i >= 0 {
						v.forAsk = strings.TrimSpace(ra.Message[i+len("ask: "):])
					}
					out = append(out, v)
				}
			}
		}
	}
	return out
}

func under(path, root string) bool {
	return path == root || strings.HasPrefix(path, root+".")
}

// oracleC07 / oracleC08 look at every step in which the core announces preemption victims, against the pre-step view.
func (w *World) oracleC07(pre *Snapshot, op Op, res *StepResult, post *Snapshot) {
	victims := preemptedIn(res)
	c07, c08 := w.Checks["C07"] || w.Checks["*"], w.Checks["C08"] || w.Checks["*"]
	// C08 (every step): what the queues report as preempting is the sum of the live allocations marked as preempted
	if c08 {
		want := map[string]Res{}
		for _, a := range post.Apps {
			for _, al := range a.Allocs {
				if al.Preempted {
					for _, p := range PathPrefixes(a.Queue) {
						if want[p] == nil {
							want[p] = Res{}
						}
						want[p].AddIn(al.Res)
					}
				}
			}
		}
		for _, path := range SortedKeys(post.Queues) {
			exp := want[path]
			if exp == nil {
				exp = Res{}
			}
			if !post.Queues[path].Preempting.Eq(exp) {
				w.vio("C08", "queue %s tracks %s as preempting, the allocations below it that are marked as preempted sum to %s", path, post.Queues[path].Preempting, exp)
			}
		}
		if len(victims) == 0 {
			// nothing announced: nothing may be newly marked
			for id, a := range post.Apps {
				for key, al := range a.Allocs {
					if !al.Preempted {
						continue
					}
					if pa := pre.Apps[id]; pa != nil {
						if pal := pa.Allocs[key]; pal != nil && !pal.Preempted {
							w.vio("C08", "allocation %s was marked as preempted in a step that announced no victim to the shim (%s)", key, op.Kind)
						}
					}
				}
			}
		}
	}
	if len(victims) == 0 {
		return
	}
	w.Tag("preemption-step")
	// who asked: the asks whose "triggered preemption" flag was raised in this step. One scheduling cycle can preempt for
	// more than one ask (a daemon set ask does not end the cycle): the victims are then grouped by the ask the release
	// names.
	type askRef struct {
		ask   *AllocSnap
		queue string
	}
	var askers []askRef
	for _, id := range SortedKeys(post.Apps) {
		a := post.Apps[id]
		for _, key := range SortedKeys(a.Asks) {
			ask := a.Asks[key]
			if !ask.Triggered {
				continue
			}
			if pa := pre.Apps[id]; pa != nil {
				if pask := pa.Asks[key]; pask != nil && !pask.Triggered {
					askers = append(askers, askRef{pask, a.Queue})
				}
			}
		}
	}
	if len(askers) <= 1 {
		var asker *AllocSnap
		q := ""
		if len(askers) == 1 {
			asker, q = askers[0].ask, askers[0].queue
		}
		w.checkPreemption(pre, op, post, victims, asker, q, c07, c08)
		return
	}
	w.Tag("preemption-two-asks-in-one-cycle")
	for _, ar := range askers {
		var group []victimRef
		for _, v := range victims {
			if v.forAsk == ar.ask.Key {
				group = append(group, v)
			}
		}
		if len(group) > 0 {
			w.checkPreemption(pre, op, post, group, ar.ask, ar.queue, c07, c08)
		}
	}
}

// checkPreemption judges the victims announced for one ask (nil: quota preemption or not attributable).
func (w *World) checkPreemption(pre *Snapshot, op Op, post *Snapshot, victims []victimRef, asker *AllocSnap, askerQueue string, c07, c08 bool) {
	kind := "queue"
	switch {
	case op.Kind == OpQuotaPre:
		kind = "quota"
	case asker == nil:
		kind = "unattributed"
	case asker.ReqNode != "":
		kind = "required-node"
	}
	w.Tag("preemption-" + kind)
	seen := map[string]bool{}
	var victimSnaps []*AllocSnap
	classes := map[string]bool{}
	// which ineligible classes were present (so that a dropped filter would have been visible)
	for _, a := range pre.Apps {
		for _, al := range a.Allocs {
			switch {
			case al.ReqNode != "":
				classes["daemonset"] = true
			case al.Released:
				classes["released"] = true
			case al.Preempted:
				classes["preempted"] = true
			}
			if asker != nil && al.Priority > asker.Priority {
				classes["higher-priority"] = true
			}
			if asker != nil && a.Queue == askerQueue {
				classes["same-leaf"] = true
			}
			if q := pre.Queues[a.Queue]; q != nil && !q.PreemptionEnabled {
				classes["disabled-queue"] = true
			}
		}
	}
	for c := range classes {
		w.Tag("c07-pool-has-" + c)
	}
	if len(classes) > 0 {
		w.Tag("c07-pool-has-ineligible")
	}
	for _, v := range victims {
		if seen[v.key] {
			w.vio("C07", "victim %s is announced twice in one step", v.key)
			continue
		}
		seen[v.key] = true
		if w.Shim.PreemptedKeys[v.key] > 1 {
			w.vio("C07", "victim %s announced as preempted %d times", v.key, w.Shim.PreemptedKeys[v.key])
		}
		pa := pre.Apps[v.app]
		var al *AllocSnap
		if pa != nil {
			al = pa.Allocs[v.key]
		}
		if al == nil {
			w.vio("C07", "victim %s of %s was not a bound allocation before the step", v.key, v.app)
			continue
		}
		victimSnaps = append(victimSnaps, al)
		if n := pre.Nodes[al.Node]; n == nil || n.Allocs[v.key] == nil {
			w.vio("C07", "victim %s was not on node %s before the step", v.key, al.Node)
		}
		if !c07 {
			continue
		}
		if al.Released {
			w.vio("C07", "victim %s was already released (replacement or timeout in flight)", v.key)
		}
		if al.Preempted {
			w.vio("C07", "victim %s was already marked for preemption", v.key)
		}
		if al.ReqNode != "" {
			w.vio("C07", "victim %s requires node %s (daemon set style allocations are never preempted)", v.key, al.ReqNode)
		}
		switch kind {
		case "queue":
			vq := pa.Queue
			if vq == askerQueue {
				w.vio("C07", "victim %s lives in the asker's own leaf queue %s", v.key, vq)
			}
			fence := "root"
			prefixes := PathPrefixes(askerQueue)
			for i := len(prefixes) - 1; i >= 0; i-- {
				if q := pre.Queues[prefixes[i]]; q != nil && q.PreemptionFence {
					fence = prefixes[i]
					break
				}
			}
			if !under(vq, fence) {
				w.vio("C07", "victim %s lives in %s, outside the preemption fence %s of the asker's queue %s", v.key, vq, fence, askerQueue)
			}
			if q := pre.Queues[vq]; q != nil && !q.PreemptionEnabled {
				w.vio("C07", "victim %s lives in %s whose preemption policy is disabled", v.key, vq)
			}
			share := false
			for k, x := range asker.Res {
				if x > 0 && al.Res[k] > 0 {
					share = true
				}
			}
			if !share {
				w.vio("C07", "victim %s %s shares no resource type with the ask %s %s", v.key, al.Res, asker.Key, asker.Res)
			}
			// priority: asserted in the crisp case only (no offsets and no priority fences on the two paths below the fence)
			crisp := true
			for _, p := range append(PathPrefixes(askerQueue), PathPrefixes(vq)...) {
				if q := pre.Queues[p]; q != nil && (q.PriorityOffset != 0 || q.PrioFence) {
					crisp = false
				}
			}
			if crisp {
				w.Tag("c07-priority-crisp")
				if al.Priority > asker.Priority {
					w.vio("C07", "victim %s (priority %d) outranks the ask %s (priority %d); no priority offsets or fences are configured on either path", v.key, al.Priority, asker.Key, asker.Priority)
				}
			}
		case "required-node":
			if al.Node != asker.ReqNode {
				w.vio("C07", "victim %s is on node %s, the ask %s requires node %s", v.key, al.Node, asker.Key, asker.ReqNode)
			}
			if al.Priority > asker.Priority {
				w.vio("C07", "required node preemption: victim %s (priority %d) outranks the ask %s (priority %d)", v.key, al.Priority, asker.Key, asker.Priority)
			}
		}
	}
	if kind == "queue" && c07 {
		if !asker.AllowOther {
			w.vio("C07", "ask %s triggered preemption although it does not allow preempting others", asker.Key)
		}
		if q := pre.Queues[askerQueue]; q != nil && (q.PreemptionDelay == "1h0m0s" || q.PreemptionDelay == "30s") && w.Shim.Keys[asker.Key] != nil && w.Shim.Keys[asker.Key].Spec.AgeSec == 0 {
			w.vio("C07", "ask %s triggered preemption right after it was created, its queue %s has a preemption delay of %s", asker.Key, askerQueue, q.PreemptionDelay)
		}
	}
	if !c08 {
		return
	}
	switch kind {
	case "queue":
		guaranteed := 0
		for _, p := range PathPrefixes(askerQueue) {
			if q := pre.Queues[p]; q != nil && q.GuarSet {
				guaranteed++
			}
		}
		if guaranteed == 0 {
			w.vio("C08", "queue preemption for ask %s in %s although no queue on its path has guaranteed resources", asker.Key, askerQueue)
		}
		guarQueues := 0
		for _, q := range pre.Queues {
			if q.GuarSet {
				guarQueues++
			}
		}
		if guarQueues >= 2 {
			w.Tag("c08-preemption-with-2-guaranteed-queues")
		}
		// victims only from queues above their guaranteed share at the moment each victim is taken
		taken := map[string]Res{}
		for _, al := range victimSnaps {
			for _, p := range PathPrefixes(pre.Apps[al.App].Queue) {
				if q := pre.Queues[p]; q != nil && q.GuarSet && !q.Preempting.IsZero() {
					w.Tag("c08-victim-queue-with-guarantee-has-victims-in-flight")
				}
			}
		}
		for _, al := range victimSnaps {
			vq := pre.Apps[al.App].Queue
			// queues on the victim's path below the deepest common ancestor with the asker's queue
			var side []string
			for _, p := range PathPrefixes(vq) {
				if !under(askerQueue, p) {
					side = append(side, p)
				}
			}
			hasGuar, above := false, false
			for _, p := range side {
				if q := pre.Queues[p]; q != nil && q.GuarSet {
					hasGuar = true
				}
			}
			// weakest reading: the share of any queue on the victim's path counts (the core works with the remaining
			// guarantee over the whole path, common ancestors included)
			for _, p := range PathPrefixes(vq) {
				q := pre.Queues[p]
				if q == nil || !q.GuarSet {
					continue
				}
				usage := q.Allocated.Sub(q.Preempting)
				if t := taken[p]; t != nil {
					usage = usage.Sub(t)
				}
				// a type the guarantee does not define is not guaranteed at all: any usage of it is above the share
				for k := range asker.Res.Add(al.Res) {
					if (asker.Res[k] > 0 || al.Res[k] > 0) && usage[k] > q.Guaranteed[k] {
						above = true
					}
				}
			}
			if hasGuar && !above {
				w.vio("C08", "victim %s %s was taken from %s although no queue on its path was above its guaranteed share at that moment (ask %s %s)", al.Key, al.Res, vq, asker.Key, asker.Res)
			}
			for _, p := range PathPrefixes(vq) {
				if taken[p] == nil {
					taken[p] = Res{}
				}
				taken[p].AddIn(al.Res)
			}
		}
		// committed only if the victims and the free space of the chosen node cover the ask
		node := ""
		if a := post.Apps[asker.App]; a != nil {
			node = a.Reservations[asker.Key]
		}
		if node == "" {
			w.Tag("c08-no-reservation-after-preemption")
		} else if pn := pre.Nodes[node]; pn != nil {
			have := pn.Available.Clone()
			for _, al := range victimSnaps {
				if al.Node == node {
					have.AddIn(al.Res)
				}
			}
			if !asker.Res.FitsIn(pn.Available) && !asker.Res.FitsIn(have) {
				w.vio("C08", "preemption for ask %s %s reserved node %s: its free space %s plus the victims on it (%s together) do not cover the ask", asker.Key, asker.Res, node, pn.Available, have)
			}
		}
	case "quota":
		if !w.quotaPreemptionOn() {
			w.vio("C08", "quota preemption victims announced although quota preemption is not enabled for the partition")
		}
		for _, al := range victimSnaps {
			vq := pre.Apps[al.App].Queue
			over, slow, fast := false, "", false
			for _, p := range PathPrefixes(vq) {
				q := pre.Queues[p]
				if q == nil || !q.MaxSet {
					continue
				}
				for k, m := range q.Max {
					if q.Allocated[k] > m {
						over = true
						// every change of the delay moves a planned start time by the difference: with a delay of an hour or
						// more in force the start time lies in the future, whatever the delay was before
						if strings.HasSuffix(q.QuotaPreemptionDelay, "h0m0s") {
							slow = p + " (" + q.QuotaPreemptionDelay + ")"
						} else {
							fast = true
						}
						if !q.Managed {
							w.vio("C08", "quota preemption victim %s: queue %s is over its maximum but is not a managed queue", al.Key, p)
						}
					}
				}
			}
			if !over {
				w.vio("C08", "quota preemption victim %s in %s: no queue on its path is above its maximum", al.Key, vq)
			}
			if slow != "" && !fast {
				w.vio("C08", "quota preemption victim %s: the queue over its maximum is %s, that delay cannot have elapsed", al.Key, slow)
			}
		}
		// never more than the excess
		for _, path := range SortedKeys(pre.Queues) {
			q := pre.Queues[path]
			if !q.MaxSet {
				continue
			}
			sum := Res{}
			for _, al := range victimSnaps {
				if under(pre.Apps[al.App].Queue, path) {
					sum.AddIn(al.Res)
				}
			}
			if sum.IsZero() {
				continue
			}
			w.Tag("c08-quota-preemption")
		}
	}
}

func (w *World) quotaPreemptionOn() bool {
	p := w.Conf.Partitions[0].Preemption
	return p.QuotaPreemptionEnabled != nil && *p.QuotaPreemptionEnabled
}
