package harness

import (
	"github.com/apache/yunikorn-core/pkg/rmproxy/rmevent"
	"github.com/apache/yunikorn-scheduler-interface/lib/go/si"
)

// oracleC06: gang scheduling. Swap links, confirmations, placeholder counters, timeout behaviour, no placeholder
// outlives its application.
func (w *World) oracleC06(pre *Snapshot, op Op, res *StepResult, post *Snapshot) {
	// 1. a swap link that appears in this step: same application, same task group, real no larger than the placeholder
	for _, id := range SortedKeys(post.Apps) {
		app := post.Apps[id]
		pa := pre.Apps[id]
		for _, key := range SortedKeys(app.Allocs) {
			ph := app.Allocs[key]
			if !ph.Placeholder || ph.ReleaseKey == "" {
				continue
			}
			if pa != nil {
				if pph := pa.Allocs[key]; pph != nil && pph.ReleaseKey == ph.ReleaseKey {
					continue // link existed before
				}
			}
			real := app.Asks[ph.ReleaseKey]
			if real == nil {
				w.vio("C06", "placeholder %s of %s is linked to %s which is not an ask of the same application", key, id, ph.ReleaseKey)
				continue
			}
			w.Tag("c06-swap-started")
			if real.Placeholder {
				w.vio("C06", "placeholder %s is being replaced by %s which is a placeholder itself", key, real.Key)
			}
			if real.TaskGroup != ph.TaskGroup {
				w.vio("C06", "real ask %s (task group %q) replaces placeholder %s of task group %q", real.Key, real.TaskGroup, key, ph.TaskGroup)
			}
			if !real.Res.LEq(ph.Res) {
				w.vio("C06", "real ask %s %s replaces placeholder %s %s: larger on a resource type", real.Key, real.Res, key, ph.Res)
			}
			if real.ReleaseKey != key {
				w.vio("C06", "placeholder %s links to %s but that ask links back to %q", key, real.Key, real.ReleaseKey)
			}
			if real.Node != ph.Node {
				w.Tag("c06-swap-on-other-node")
			}
		}
	}
	// 2. the shim confirms a swap
	if op.Kind == OpConfirm && op.Term == "PLACEHOLDER_REPLACED" {
		if pa := pre.Apps[op.App]; pa != nil {
			if ph := pa.Allocs[op.Key]; ph != nil && ph.ReleaseKey != "" {
				real := pa.Asks[ph.ReleaseKey]
				app := post.Apps[op.App]
				if real != nil && app != nil {
					w.Tag("c06-swap-confirmed")
					if _, still := app.Allocs[op.Key]; still {
						w.vio("C06", "placeholder %s is still allocated to %s after the shim confirmed its replacement", op.Key, op.App)
					}
					if n := post.Nodes[ph.Node]; n != nil {
						if _, still := n.Allocs[op.Key]; still {
							w.vio("C06", "placeholder %s is still on node %s after the shim confirmed its replacement", op.Key, ph.Node)
						}
					}
					got := app.Allocs[real.Key]
					switch {
					case got == nil:
						w.vio("C06", "real allocation %s is not allocated to %s after the shim confirmed the replacement of %s", real.Key, op.App, op.Key)
					case got.Node != real.Node:
						w.vio("C06", "real allocation %s ended on node %s, the swap was announced for node %s", real.Key, got.Node, real.Node)
					default:
						if n := post.Nodes[got.Node]; n == nil || n.Allocs[real.Key] == nil {
							w.vio("C06", "real allocation %s is not on node %s after the shim confirmed the replacement", real.Key, got.Node)
						}
					}
					// queue usage reflects the real allocation: the leaf queue of the application reports exactly what its
					// applications hold once the swap is confirmed (judged only when that was so before the confirmation)
					sumOf := func(s *Snapshot, q *QueueSnap) Res {
						sum := Res{}
						for _, id := range q.Apps {
							if a := s.Apps[id]; a != nil {
								sum.AddIn(a.Allocated)
								sum.AddIn(a.Placeholder)
							}
						}
						return sum
					}
					if pq, q := pre.Queues[app.Queue], post.Queues[app.Queue]; pq != nil && q != nil && len(q.Children) == 0 && len(pq.Children) == 0 && pq.Allocated.Eq(sumOf(pre, pq)) {
						if want := sumOf(post, q); !q.Allocated.Eq(want) {
							w.vio("C06", "queue %s reports allocated %s after the replacement of %s by %s was confirmed, its applications hold %s", app.Queue, q.Allocated, op.Key, real.Key, want)
						}
					}
					// usage reflects the real allocation, never more than before (unless the RM resized the real one meanwhile)
					if real.Res.LEq(ph.Res) {
						for _, nid := range []string{ph.Node, real.Node} {
							pn, n := pre.Nodes[nid], post.Nodes[nid]
							if pn != nil && n != nil && !n.Allocated.LEq(pn.Allocated) {
								w.vio("C06", "node %s allocated grew from %s to %s when the replacement of %s by %s was confirmed", nid, pn.Allocated, n.Allocated, op.Key, real.Key)
							}
						}
						for _, p := range PathPrefixes(app.Queue) {
							pq, q := pre.Queues[p], post.Queues[p]
							if pq != nil && q != nil && !q.Allocated.LEq(pq.Allocated) {
								w.vio("C06", "queue %s allocated grew from %s to %s when the replacement of %s by %s was confirmed", p, pq.Allocated, q.Allocated, op.Key, real.Key)
							}
						}
						if pu, u := pre.Users[app.User], post.Users[app.User]; pu != nil && u != nil {
							for p, r := range u.Usage {
								if !r.LEq(pu.Usage[p]) {
									w.vio("C06", "usage of user %s in %s grew from %s to %s when the replacement of %s by %s was confirmed", app.User, p, pu.Usage[p], r, op.Key, real.Key)
								}
							}
						}
					}
				}
			}
		}
	}
	// 3. per task group: replaced never exceeds the number of placeholders
	for _, id := range SortedKeys(post.Apps) {
		for tg, d := range post.Apps[id].PhData {
			if d.Replaced > d.Count {
				w.vio("C06", "application %s task group %s reports %d placeholders replaced of %d", id, tg, d.Replaced, d.Count)
			}
			if d.Replaced+d.TimedOut > d.Count {
				w.Tag("diag-replaced-plus-timedout-above-count")
			}
		}
	}
	// 4. the placeholder timeout fires before the application got anywhere (New/Accepted: nothing real allocated)
	if op.Kind == OpFirePh && res.Fired {
		if pa := pre.Apps[op.App]; pa != nil && (pa.State == "New" || pa.State == "Accepted") && !swapInFlight(pa) {
			w.Tag("c06-timeout-before-real-allocation")
			state := "(gone)"
			if a := post.Apps[op.App]; a != nil {
				state = a.State
			} else if d := post.Done[op.App]; d != nil {
				state = d.State
			}
			style := ""
			if sa := w.Shim.Apps[op.App]; sa != nil {
				style = sa.Spec.Style
			}
			switch style {
			case "Hard":
				if state != "Failing" && state != "Failed" {
					w.vio("C06", "placeholder timeout of Hard gang application %s (was %s): state is %s, expected Failing", op.App, pa.State, state)
				}
			default:
				if state != "Resuming" && state != "Accepted" && state != "Running" && state != "Completing" {
					w.vio("C06", "placeholder timeout of Soft gang application %s (was %s): state is %s, expected Resuming/Accepted", op.App, pa.State, state)
				}
			}
			// every allocated placeholder that was not already on its way out is released with TIMEOUT, every pending
			// placeholder ask is released as well
			timeout := map[string]bool{}
			for _, ev := range res.Events {
				if r, ok := ev.(*rmevent.RMReleaseAllocationEvent); ok {
					for _, ra := range r.ReleasedAllocations {
						if ra.TerminationType == si.TerminationType_TIMEOUT {
							timeout[ra.AllocationKey] = true
						}
					}
				}
			}
			for _, key := range SortedKeys(pa.Allocs) {
				a := pa.Allocs[key]
				if a.Placeholder && !a.Released && !a.Preempted && !timeout[key] {
					w.vio("C06", "placeholder timeout of %s: allocated placeholder %s was not released", op.App, key)
				}
			}
			for _, key := range SortedKeys(pa.Asks) {
				a := pa.Asks[key]
				if a.Placeholder && !a.Allocated && !a.Released && !a.Preempted && !timeout[key] {
					w.vio("C06", "placeholder timeout of %s: pending placeholder ask %s was not released", op.App, key)
				}
			}
		}
	}
	// 5. no placeholder outlives its application
	for _, nid := range SortedKeys(post.Nodes) {
		for _, key := range SortedKeys(post.Nodes[nid].Allocs) {
			a := post.Nodes[nid].Allocs[key]
			if a.Foreign || !a.Placeholder {
				continue
			}
			if _, live := post.Apps[a.App]; !live {
				state := "removed"
				if d := post.Done[a.App]; d != nil {
					state = d.State
				}
				w.vio("C06", "node %s still holds placeholder %s of application %s which is %s", nid, key, a.App, state)
			}
		}
	}
}
