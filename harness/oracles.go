package harness

import (
	"fmt"
	"sort"
	"strings"

	"github.com/apache/yunikorn-core/pkg/rmproxy/rmevent"
)

// newBinding is an allocation that appeared on a node in this step.
type newBinding struct {
	Node string
	A    *AllocSnap
}

func newBindings(pre, post *Snapshot) []newBinding {
	var out []newBinding
	for _, id := range SortedKeys(post.Nodes) {
		n := post.Nodes[id]
		var pn *NodeSnap
		if pre != nil {
			pn = pre.Nodes[id]
		}
		for _, key := range SortedKeys(n.Allocs) {
			if pn != nil {
				if _, ok := pn.Allocs[key]; ok {
					continue
				}
			}
			out = append(out, newBinding{Node: id, A: n.Allocs[key]})
		}
	}
	return out
}

// runOracles evaluates the enabled oracle sets on one step.
func (w *World) runOracles(pre *Snapshot, op Op, res *StepResult, post *Snapshot) {
	if post.PartitionGone {
		return
	}
	decision := op.Kind == OpSchedule
	binds := newBindings(pre, post)
	if op.Kind == OpUpdAsk {
		// the RM resizes the real ask of a placeholder replacement that is in flight
		if pa := pre.Apps[op.App]; pa != nil {
			for _, al := range pa.Allocs {
				if al.Placeholder && al.ReleaseKey == op.Key {
					if w.ResizedMidSwap == nil {
						w.ResizedMidSwap = map[string]bool{}
					}
					w.ResizedMidSwap[op.Key] = true
				}
			}
		}
	}
	if decision {
		w.Decisions++
		for _, b := range binds {
			if !b.A.Foreign {
				w.Tag("bind")
				if pa := pre.Apps[b.A.App]; pa != nil {
					if n, ok := pa.Reservations[b.A.Key]; ok {
						w.Tag("bind-reserved-ask")
						if n != b.Node {
							w.Tag("bind-reserved-ask-on-other-node")
						}
					}
				}
			}
		}
		preR, postR := 0, 0
		for _, n := range pre.Nodes {
			preR += len(n.Reservations)
		}
		for _, n := range post.Nodes {
			postR += len(n.Reservations)
		}
		if postR > preR {
			w.Tag("reservation-made")
		}
	}
	on := func(p string) bool { return w.Checks[p] || w.Checks["*"] }
	if on("C01") {
		w.oracleC01(pre, op, post, decision, binds)
	}
	if on("C02") {
		w.oracleC02(pre, op, post, decision)
	}
	if on("C03") {
		w.oracleC03(post)
	}
	if on("C09") {
		w.oracleC09(pre, op, post, decision)
	}
	if on("C10") {
		w.oracleC10(pre, op, res, post)
	}
	if on("C11") {
		w.oracleC11(pre, op, post, decision, binds)
	}
	if on("C06") {
		w.oracleC06(pre, op, res, post)
	}
	if on("C05") {
		w.oracleC05(pre, op, post, decision, binds)
	}
	if on("C13") {
		w.oracleC13(pre, op, res, post)
	}
	if on("C19") {
		w.oracleC19(post)
	}
	if on("C16") {
		w.oracleC16(pre, op, res, post)
	}
	if on("C07") || on("C08") {
		w.oracleC07(pre, op, res, post)
	}
}

// ---------------------------------------------------------------------------------------------- C01

var forcedNodeOps = map[string]bool{OpReportBound: true, OpUpdNode: true, OpForeign: true, OpUpdAsk: true, OpHostile: true}

func (w *World) oracleC01(pre *Snapshot, op Op, post *Snapshot, decision bool, binds []newBinding) {
	if decision {
		for _, b := range binds {
			if b.A.Foreign {
				continue
			}
			pn := pre.Nodes[b.Node]
			if pn == nil {
				w.vio("C01", "%s bound to node %s which was not registered before the cycle", b.A.Key, b.Node)
				continue
			}
			if sn := w.Shim.Nodes[b.Node]; sn == nil || sn.State != "accepted" {
				w.vio("C01", "%s bound to node %s which the shim does not have registered", b.A.Key, b.Node)
			}
			free := pn.Capacity.Sub(pn.Occupied).Sub(pn.Allocated)
			for k, v := range b.A.Res {
				if v > free[k] {
					w.vio("C01", "scheduler over-commits node %s: %s needs %s, free before the cycle was %s (capacity %s occupied %s allocated %s)",
						b.Node, b.A.Key, b.A.Res, free, pn.Capacity, pn.Occupied, pn.Allocated)
					break
				}
			}
			if !pn.Schedulable {
				w.vio("C01", "%s bound to node %s which is not schedulable", b.A.Key, b.Node)
			}
			if b.A.ReqNode != "" && b.A.ReqNode != b.Node {
				w.vio("C01", "%s requires node %s but was bound to %s", b.A.Key, b.A.ReqNode, b.Node)
			}
			if len(pn.Reservations) > 0 && b.A.ReqNode != b.Node {
				// "not reserved for a different ask": the cycle may first drop a reservation that should not exist any
				// more (its ask was allocated by the RM, or it waited too long for quota) and then use the node. What
				// is never allowed: binding another ask while the reservation is still in place afterwards, or while
				// the reserving ask is still waiting and nothing entitled the cycle to drop its reservation.
				mine := false
				for _, r := range pn.Reservations {
					if r.Key == b.A.Key {
						mine = true
						continue
					}
					still := false
					if postN := post.Nodes[b.Node]; postN != nil {
						for _, pr := range postN.Reservations {
							if pr.Key == r.Key {
								still = true
							}
						}
					}
					waiting := func(s *Snapshot) bool {
						app := s.Apps[r.App]
						if app == nil {
							return false
						}
						ask := app.Asks[r.Key]
						return ask != nil && !ask.Allocated
					}
					switch {
					case still:
						w.vio("C01", "%s bound to node %s which was and still is reserved for %s", b.A.Key, b.Node, r.Key)
					case waiting(pre) && waiting(post) && !w.Opts.ShortResvWait:
						w.vio("C01", "%s bound to node %s which was reserved for the waiting ask %s (reservation dropped by the cycle without cause)", b.A.Key, b.Node, r.Key)
					default:
						w.Tag("bind-after-stale-reservation-dropped")
					}
				}
				if mine {
					w.Tag("bind-on-own-reservation")
				}
			}
			if !w.Opts.NoPredicates {
				w.Pred.mu.Lock()
				ans, asked := w.Pred.calls[pk(b.A.Key, b.Node)]
				w.Pred.mu.Unlock()
				if !asked {
					w.vio("C01", "%s bound to node %s without asking the shim's predicates", b.A.Key, b.Node)
				} else if !ans {
					w.vio("C01", "%s bound to node %s although the shim's predicates refused it", b.A.Key, b.Node)
				}
			}
			if len(pn.Allocs) > 0 {
				w.Tag("bind-on-used-node")
			}
			w.Tag("c01-binding-checked")
		}
	}
	for _, id := range SortedKeys(post.Nodes) {
		n := post.Nodes[id]
		alloc, occ := Res{}, Res{}
		for _, a := range n.Allocs {
			if a.Foreign {
				occ.AddIn(a.Res)
			} else {
				alloc.AddIn(a.Res)
			}
		}
		if !alloc.Eq(n.Allocated) {
			w.vio("C01", "node %s reports allocated %s, allocations bound to it sum to %s", id, n.Allocated, alloc)
		}
		if !occ.Eq(n.Occupied) {
			w.vio("C01", "node %s reports occupied %s, foreign allocations on it sum to %s", id, n.Occupied, occ)
		}
		if want := n.Capacity.Sub(n.Allocated).Sub(n.Occupied); !want.Eq(n.Available) {
			w.vio("C01", "node %s reports available %s, capacity-allocated-occupied is %s", id, n.Available, want)
		}
		if pn := pre.Nodes[id]; pn != nil {
			for k, v := range n.Available {
				if v < 0 && pn.Available[k] >= 0 {
					forced := forcedNodeOps[op.Kind]
					if op.Kind == OpConfirm && op.Term == "PLACEHOLDER_REPLACED" {
						// the replacement is larger than the placeholder it takes the place of: only possible when the RM resized
						// the real ask while the swap was in flight, the node takes the difference when the swap completes
						if pa := pre.Apps[op.App]; pa != nil {
							if ph := pa.Allocs[op.Key]; ph != nil && ph.ReleaseKey != "" {
								if real := pa.Asks[ph.ReleaseKey]; real != nil && !real.Res.FitsIn(ph.Res) && w.ResizedMidSwap[ph.ReleaseKey] {
									forced = true
									w.Tag("c01-resized-replacement-larger-than-placeholder")
								}
							}
						}
					}
					if !forced {
						w.vio("C01", "available %s of node %s turned negative (%d) in a step that is not an RM forced change: %s", k, id, v, op)
					} else {
						w.Tag("forced-negative")
					}
				}
			}
		}
	}
}

// ---------------------------------------------------------------------------------------------- C02

var forcedQueueOps = map[string]bool{OpReportBound: true, OpUpdAsk: true, OpReload: true, OpDecomNode: true, OpUpdNode: true, OpAddApp: true, OpHostile: true}

func (w *World) oracleC02(pre *Snapshot, op Op, post *Snapshot, decision bool) {
	capSum := Res{}
	for _, n := range post.Nodes {
		capSum.AddIn(n.Capacity)
	}
	root := post.Queues["root"]
	if root != nil && !root.Max.Eq(capSum) {
		w.vio("C02", "root maximum is %s, registered node capacities sum to %s", root.Max, capSum)
	}
	for _, path := range SortedKeys(post.Queues) {
		q := post.Queues[path]
		pq := pre.Queues[path]
		isRoot := path == "root"
		if decision && pq != nil {
			for k, v := range q.Allocated {
				if v <= pq.Allocated[k] {
					continue
				}
				mx, defined := q.Max[k]
				if isRoot {
					defined = true
				}
				if !q.MaxSet && !isRoot {
					defined = false
				}
				if defined {
					if pq.HeadRoom != nil {
						w.Tag("c02-decision-with-max")
					}
					if v > mx {
						w.vio("C02", "scheduling took queue %s to %s=%d above its maximum %d (usage before %s, max %s)", path, k, v, mx, pq.Allocated, q.Max)
					}
				}
			}
		}
		// usage above a defined maximum may only appear through forced changes
		if pq != nil && !forcedQueueOps[op.Kind] && (q.MaxSet || isRoot) {
			for k, v := range q.Allocated {
				mx, defined := q.Max[k]
				if isRoot {
					defined = true
				}
				if !defined || v <= mx {
					continue
				}
				pmx, pdef := pq.Max[k]
				if isRoot {
					pdef = true
				}
				wasAbove := pdef && (pq.MaxSet || isRoot) && pq.Allocated[k] > pmx
				if !wasAbove || v > pq.Allocated[k] {
					w.vio("C02", "usage of queue %s went above its maximum in a step that is neither RM forced nor a lowering of the maximum (%s): %s=%d max %d, before %d", path, op.Kind, k, v, mx, pq.Allocated[k])
				}
			}
		}
		// effective limit never looser than the parent's
		if q.Parent != "" {
			if p := post.Queues[q.Parent]; p != nil {
				for k, pv := range p.EffMax {
					if cv, ok := q.EffMax[k]; !ok || cv > pv {
						w.vio("C02", "effective maximum of %s (%s) is looser than its parent's (%s) on %s", path, q.EffMax, p.EffMax, k)
					}
				}
				for k, pv := range p.HeadRoom {
					if cv, ok := q.HeadRoom[k]; !ok || cv > pv {
						w.vio("C02", "head room of %s (%s) is looser than its parent's (%s) on %s", path, q.HeadRoom, p.HeadRoom, k)
					}
				}
			}
		}
	}
}

// ---------------------------------------------------------------------------------------------- C03

// crossNodeReals returns, per node, the resources of real allocations that sit on a node while their placeholder
// (on another node) has not been confirmed as replaced yet.
func crossNodeReals(s *Snapshot) (map[string]Res, map[string]bool) {
	perNode := map[string]Res{}
	keys := map[string]bool{}
	for _, app := range s.Apps {
		for _, ask := range app.Asks {
			if ask.Placeholder || !ask.Allocated || ask.ReleaseKey == "" {
				continue
			}
			if _, bound := app.Allocs[ask.Key]; bound {
				continue
			}
			ph := app.Allocs[ask.ReleaseKey]
			if ph == nil || ph.Node == ask.Node {
				continue
			}
			if perNode[ask.Node] == nil {
				perNode[ask.Node] = Res{}
			}
			perNode[ask.Node].AddIn(ask.Res)
			keys[ask.Key] = true
		}
	}
	return perNode, keys
}

func (w *World) oracleC03(s *Snapshot) {
	neg := func(what string, r Res) {
		if r.HasNegative() {
			w.vio("C03", "%s is negative: %s", what, r)
		}
	}
	allocCount := 0
	for _, id := range SortedKeys(s.Apps) {
		app := s.Apps[id]
		real, ph, pend := Res{}, Res{}, Res{}
		for _, a := range app.Allocs {
			allocCount++
			if a.Placeholder {
				ph.AddIn(a.Res)
			} else {
				real.AddIn(a.Res)
			}
			// every allocation of the application is on the node it names
			n := s.Nodes[a.Node]
			if n == nil {
				w.vio("C03", "application %s lists allocation %s on node %q which is not registered", id, a.Key, a.Node)
			} else if _, ok := n.Allocs[a.Key]; !ok {
				w.vio("C03", "application %s lists allocation %s on node %s, the node does not hold it", id, a.Key, a.Node)
			}
		}
		for _, a := range app.Asks {
			if !a.Allocated {
				pend.AddIn(a.Res)
			}
		}
		if !real.Eq(app.Allocated) {
			w.vio("C03", "application %s reports allocated %s, its allocations sum to %s", id, app.Allocated, real)
		}
		if !ph.Eq(app.Placeholder) {
			w.vio("C03", "application %s reports placeholder total %s, its placeholder allocations sum to %s", id, app.Placeholder, ph)
		}
		if !pend.Eq(app.Pending) {
			w.vio("C03", "application %s reports pending %s, its unallocated asks sum to %s", id, app.Pending, pend)
		}
		neg("application "+id+" allocated", app.Allocated)
		neg("application "+id+" placeholder", app.Placeholder)
		neg("application "+id+" pending", app.Pending)
	}
	if allocCount != s.PartAllocs {
		w.vio("C03", "partition counts %d allocations, applications list %d", s.PartAllocs, allocCount)
	}
	inFlight, inFlightKeys := crossNodeReals(s)
	nodeSum := Res{}
	for _, id := range SortedKeys(s.Nodes) {
		n := s.Nodes[id]
		nodeSum.AddIn(n.Allocated)
		if r := inFlight[id]; r != nil {
			nodeSum = nodeSum.Sub(r)
		}
		neg("node "+id+" allocated", n.Allocated)
		neg("node "+id+" occupied", n.Occupied)
		for _, a := range n.Allocs {
			if a.Foreign {
				continue
			}
			app := s.Apps[a.App]
			if app == nil {
				w.vio("C03", "node %s holds allocation %s of application %s which is not a live application of the partition", id, a.Key, a.App)
				continue
			}
			if l, ok := app.Allocs[a.Key]; ok {
				if l.Node != id {
					w.vio("C03", "node %s holds allocation %s, the application lists it on node %s", id, a.Key, l.Node)
				}
			} else if !inFlightKeys[a.Key] {
				w.vio("C03", "node %s holds allocation %s which application %s does not list", id, a.Key, a.App)
			}
		}
	}
	for _, path := range SortedKeys(s.Queues) {
		q := s.Queues[path]
		neg("queue "+path+" allocated", q.Allocated)
		neg("queue "+path+" pending", q.Pending)
		neg("queue "+path+" preempting", q.Preempting)
		// conservation: a queue's totals are the sum over its applications (leaf) plus the sum over its children
		// (parent); a queue whose type was flipped by a reload while it still has children is covered as well
		alloc, pend := Res{}, Res{}
		for _, id := range q.Apps {
			app := s.Apps[id]
			if app == nil {
				w.vio("C03", "queue %s lists application %s which is not a live application of the partition", path, id)
				continue
			}
			alloc.AddIn(app.Allocated)
			alloc.AddIn(app.Placeholder)
			pend.AddIn(app.Pending)
		}
		for _, c := range q.Children {
			if cq := s.Queues[c]; cq != nil {
				alloc.AddIn(cq.Allocated)
				pend.AddIn(cq.Pending)
			}
		}
		kind := "parent"
		if q.Leaf {
			kind = "leaf"
		}
		if !alloc.Eq(q.Allocated) {
			w.vio("C03", "%s queue %s reports allocated %s, its applications and children sum to %s", kind, path, q.Allocated, alloc)
		}
		if !pend.Eq(q.Pending) {
			w.vio("C03", "%s queue %s reports pending %s, its applications and children sum to %s", kind, path, q.Pending, pend)
		}
	}
	for _, id := range SortedKeys(s.Apps) {
		app := s.Apps[id]
		if q := s.Queues[app.Queue]; q == nil || !contains(q.Apps, id) {
			w.vio("C03", "application %s says it runs in queue %s, the queue does not list it", id, app.Queue)
		}
	}
	if root := s.Queues["root"]; root != nil && !root.Allocated.Eq(nodeSum) {
		w.vio("C03", "root queue reports allocated %s, node totals (minus in-flight swap halves) sum to %s", root.Allocated, nodeSum)
	}
}

// CheckAllZero is the drain epilogue oracle: everything released and removed, nothing may be left.
func (w *World) CheckAllZero() {
	s := w.Last
	if s.PartitionGone {
		return
	}
	for path, q := range s.Queues {
		if !q.Allocated.IsZero() || !q.Pending.IsZero() || !q.Preempting.IsZero() {
			w.vio("C03", "after everything was released and removed queue %s still reports allocated %s pending %s preempting %s", path, q.Allocated, q.Pending, q.Preempting)
		}
		if len(q.Apps) > 0 {
			w.vio("C03", "after everything was removed queue %s still lists applications %v", path, q.Apps)
		}
		if len(q.ReservedApps) > 0 {
			w.vio("C03", "after everything was removed queue %s still lists reservations %v", path, q.ReservedApps)
		}
		if q.RunningApps != 0 || len(q.AllocatingAccepted) != 0 {
			w.vio("C11", "after everything was removed queue %s still reports %d running and %v allocating applications", path, q.RunningApps, q.AllocatingAccepted)
		}
	}
	for id, n := range s.Nodes {
		if !n.Allocated.IsZero() {
			w.vio("C03", "after everything was released node %s still reports allocated %s (%d allocations)", id, n.Allocated, len(n.Allocs))
		}
		for _, a := range n.Allocs {
			if !a.Foreign {
				w.vio("C03", "after everything was released node %s still holds %s of %s", id, a.Key, a.App)
			}
		}
		if len(n.Reservations) > 0 {
			w.vio("C09", "after everything was removed node %s is still reserved: %v", id, n.Reservations)
		}
	}
	if len(s.Apps) > 0 {
		w.vio("C03", "after every application was removed the partition still lists %v", SortedKeys(s.Apps))
	}
	if s.PartAllocs != 0 || s.PartPhAllocs != 0 {
		w.vio("C03", "after everything was released the partition counts %d allocations and %d placeholders", s.PartAllocs, s.PartPhAllocs)
	}
	if s.PartReservations != 0 {
		// not part of the property (the counter must not be zero while a reservation exists; it may stay high): label only
		w.Tag("diag-partition-reservation-counter-left-high")
	}
	if w.Checks["C05"] || w.Checks["*"] {
		w.checkTrackedUsage(s)
		w.CheckTrackersDrained()
	}
}

func contains(l []string, s string) bool {
	for _, x := range l {
		if x == s {
			return true
		}
	}
	return false
}

// ---------------------------------------------------------------------------------------------- C09

func (w *World) oracleC09(pre *Snapshot, op Op, post *Snapshot, decision bool) {
	type rk struct{ app, key, node string }
	rApp, rNode := map[rk]bool{}, map[rk]bool{}
	perApp := map[string]int{}
	for id, app := range post.Apps {
		for key, node := range app.Reservations {
			rApp[rk{id, key, node}] = true
			perApp[id]++
		}
	}
	keyNodes := map[string][]string{}
	for id, n := range post.Nodes {
		for _, r := range n.Reservations {
			rNode[rk{r.App, r.Key, id}] = true
			keyNodes[r.Key] = append(keyNodes[r.Key], id)
		}
		if len(n.Reservations) > 1 {
			for _, r := range n.Reservations {
				if app := post.Apps[r.App]; app != nil {
					if ask := app.Asks[r.Key]; ask != nil && ask.ReqNode != id {
						w.vio("C09", "node %s carries %d reservations and %s does not require this node", id, len(n.Reservations), r.Key)
					}
				}
			}
			w.Tag("multi-reservation-node")
		}
	}
	for r := range rApp {
		if !rNode[r] {
			w.vio("C09", "application %s holds a reservation for %s on node %s, the node does not show it", r.app, r.key, r.node)
		}
	}
	for r := range rNode {
		if !rApp[r] {
			w.vio("C09", "node %s is reserved for %s of application %s, the application does not show it", r.node, r.key, r.app)
		}
	}
	for key, nodes := range keyNodes {
		if len(nodes) > 1 {
			sort.Strings(nodes)
			w.vio("C09", "ask %s holds reservations on several nodes: %v", key, nodes)
		}
	}
	for r := range rApp {
		app := post.Apps[r.app]
		ask := app.Asks[r.key]
		if ask == nil {
			w.vio("C09", "reservation on %s for ask %s which application %s no longer has", r.node, r.key, r.app)
			continue
		}
		if post.Nodes[r.node] == nil {
			w.vio("C09", "reservation for %s names node %s which is not registered", r.key, r.node)
		}
		if ask.Allocated && decision {
			was := false
			if pa := pre.Apps[r.app]; pa != nil {
				if pask := pa.Asks[r.key]; pask != nil && pask.Allocated {
					was = true
				}
			}
			if !was {
				w.vio("C09", "the scheduler allocated ask %s and left its reservation on node %s in place", r.key, r.node)
			}
		}
		if ask.ReqNode != "" && ask.ReqNode != r.node {
			w.vio("C09", "ask %s requires node %s but reserved node %s", r.key, ask.ReqNode, r.node)
		}
	}
	for r := range rNode {
		if post.Apps[r.app] == nil {
			w.vio("C09", "node %s is reserved for application %s which is not a live application", r.node, r.app)
		}
	}
	// queue view
	for path, q := range post.Queues {
		for id, n := range q.ReservedApps {
			app := post.Apps[id]
			if app == nil || app.Queue != path {
				w.vio("C09", "queue %s counts %d reservations for application %s which does not run there", path, n, id)
				continue
			}
			if n != perApp[id] {
				w.vio("C09", "queue %s counts %d reservations for application %s, the application holds %d", path, n, id, perApp[id])
			}
		}
	}
	for id, n := range perApp {
		app := post.Apps[id]
		if q := post.Queues[app.Queue]; q == nil || q.ReservedApps[id] != n {
			got := 0
			if q != nil {
				got = q.ReservedApps[id]
			}
			w.vio("C09", "application %s holds %d reservations, its queue %s counts %d", id, n, app.Queue, got)
		}
	}
	if len(rApp)+len(rNode) > 0 && post.PartReservations <= 0 {
		w.vio("C09", "reservations exist (%d) while the partition counter is %d", len(rNode), post.PartReservations)
	}
	// statistics
	if pre != nil {
		preCount, postCount := 0, len(rNode)
		for _, n := range pre.Nodes {
			preCount += len(n.Reservations)
		}
		if postCount > preCount && !decision {
			w.Tag("reservation-made")
		}
		if postCount < preCount {
			if decision {
				w.Tag("reservation-removed-by-cycle")
			} else {
				w.Tag("reservation-removed-by-" + op.Kind)
			}
		}
	}
}

// ---------------------------------------------------------------------------------------------- C10

var allowedEdges = map[string]map[string]bool{
	"New":        {"Accepted": true, "Rejected": true, "Failing": true, "Resuming": true},
	"Accepted":   {"Running": true, "Completing": true, "Failing": true, "Resuming": true},
	"Running":    {"Completing": true, "Failing": true},
	"Completing": {"Running": true, "Completed": true},
	"Failing":    {"Failed": true},
	"Resuming":   {"Accepted": true},
	"Completed":  {"Expired": true},
	"Failed":     {"Expired": true},
	"Rejected":   {"Expired": true},
	"Expired":    {},
}

func checkEdges(seq []string) string {
	cur := "New"
	for _, s := range seq {
		if s == cur && cur == "Running" {
			continue
		}
		if !allowedEdges[cur][s] {
			return fmt.Sprintf("%s -> %s (sequence New,%s)", cur, s, strings.Join(seq, ","))
		}
		cur = s
	}
	return ""
}

func (w *World) oracleC10(pre *Snapshot, op Op, res *StepResult, post *Snapshot) {
	// life cycle edges: from the application update messages and, independently, from the state log
	for _, id := range SortedKeys(w.Shim.Apps) {
		if bad := checkEdges(w.Shim.Apps[id].States); bad != "" {
			w.vio("C10", "application %s reported an undocumented transition to the shim: %s", id, bad)
		}
	}
	check := func(app *AppSnap) {
		if bad := checkEdges(app.StateLog); bad != "" {
			w.vio("C10", "application %s has an undocumented transition in its state log: %s", app.ID, bad)
		}
		if n := len(app.StateLog); n > 0 && app.StateLog[n-1] != app.State {
			w.vio("C10", "application %s reports state %s, last logged state is %s", app.ID, app.State, app.StateLog[n-1])
		}
		visited := map[string]bool{}
		for _, s := range app.StateLog {
			visited[s] = true
		}
		if len(visited) >= 4 {
			w.Tag("app-4-states")
		}
	}
	for _, id := range SortedKeys(post.Apps) {
		app := post.Apps[id]
		check(app)
		switch app.State {
		case "Completed", "Failed", "Expired", "Rejected":
			w.vio("C10", "application %s is %s but still listed as a live application of the partition", id, app.State)
		}
		if app.State != "New" && len(app.Asks) == 0 && len(app.Allocs) == 0 {
			switch app.State {
			case "Completing", "Completed", "Failing", "Failed", "Resuming":
			default:
				w.vio("C10", "application %s has no asks, no allocations and no placeholders but is %s", id, app.State)
			}
		}
	}
	for _, id := range SortedKeys(post.Done) {
		app := post.Done[id]
		check(app)
		if app.State == "Completed" {
			real := 0
			for _, a := range app.Allocs {
				if !a.Placeholder {
					real++
				}
			}
			pend := 0
			for _, a := range app.Asks {
				if !a.Allocated {
					pend++
				}
			}
			if !app.Allocated.IsZero() || !app.Pending.IsZero() || real > 0 || pend > 0 {
				w.vio("C10", "application %s is Completed with allocated %s pending %s (%d real allocations, %d outstanding asks)", id, app.Allocated, app.Pending, real, pend)
			}
		}
		for path, q := range post.Queues {
			if contains(q.Apps, id) {
				w.vio("C10", "terminated application %s (%s) is still in queue %s", id, app.State, path)
			}
		}
	}
	// a Completing application whose timer fires undisturbed becomes Completed and leaves queue and partition
	if op.Kind == OpFireState && res.Fired {
		if pa := pre.Apps[op.App]; pa != nil && pa.State == "Completing" {
			hasPh := false
			for _, a := range pa.Allocs {
				if a.Placeholder {
					hasPh = true
				}
			}
			if !hasPh {
				w.Tag("completing-timer-fired")
				if _, live := post.Apps[op.App]; live {
					w.vio("C10", "completing timer fired for %s (no asks, no allocations): it is still a live application in state %s", op.App, post.Apps[op.App].State)
				} else if d := post.Done[op.App]; d == nil || d.State != "Completed" {
					w.vio("C10", "completing timer fired for %s: not listed as Completed afterwards", op.App)
				}
			}
		}
	}
	// an ask for a terminated application is rejected and changes nothing
	if op.Kind == OpAddAsk {
		if _, live := pre.Apps[op.App]; !live {
			rejected := false
			for _, ev := range res.Events {
				if r, ok := ev.(*rmevent.RMRejectedAllocationEvent); ok {
					for _, ra := range r.RejectedAllocations {
						if ra.AllocationKey == op.Key {
							rejected = true
						}
					}
				}
			}
			if !rejected {
				w.vio("C10", "ask %s for application %s (terminated or unknown) was not rejected", op.Key, op.App)
			}
			for path, q := range post.Queues {
				if pq := pre.Queues[path]; pq != nil && (!pq.Pending.Eq(q.Pending) || !pq.Allocated.Eq(q.Allocated)) {
					w.vio("C10", "ask %s for terminated application %s changed queue %s", op.Key, op.App, path)
				}
			}
			w.Tag("ask-for-terminated-app")
		}
	}
}

// ---------------------------------------------------------------------------------------------- C11

var forcedRunOps = map[string]bool{OpReportBound: true, OpHostile: true}

func (w *World) oracleC11(pre *Snapshot, op Op, post *Snapshot, decision bool, binds []newBinding) {
	if decision {
		seen := map[string]bool{}
		for _, b := range binds {
			if b.A.Foreign || seen[b.A.App] {
				continue
			}
			seen[b.A.App] = true
			pa := pre.Apps[b.A.App]
			if pa == nil || pa.State != "Accepted" {
				continue
			}
			if len(pa.Allocs) > 0 {
				// not its first allocation: the application already holds allocations the RM reported as bound (recovery),
				// it was admitted by force outside the gate
				w.Tag("c11-app-already-holds-forced-allocations")
				continue
			}
			for _, p := range PathPrefixes(pa.Queue) {
				pq := pre.Queues[p]
				if pq == nil || pq.MaxApps == 0 {
					continue
				}
				w.Tag("c11-gate-evaluated")
				if contains(pq.AllocatingAccepted, b.A.App) {
					continue
				}
				if p != pa.Queue {
					w.Tag("c11-gate-on-ancestor")
				}
				if pq.RunningApps+uint64(len(pq.AllocatingAccepted))+1 > pq.MaxApps {
					w.vio("C11", "application %s (Accepted, not tracked) got allocation %s although queue %s reports %d running + %d allocating of max %d",
						b.A.App, b.A.Key, p, pq.RunningApps, len(pq.AllocatingAccepted), pq.MaxApps)
				}
			}
		}
	}
	below := func(path string, state string) (int, map[string]bool) {
		n := 0
		ids := map[string]bool{}
		for id, app := range post.Apps {
			if app.Queue == path || strings.HasPrefix(app.Queue, path+".") {
				ids[id] = true
				if app.State == state {
					n++
				}
			}
		}
		return n, ids
	}
	for _, path := range SortedKeys(post.Queues) {
		q := post.Queues[path]
		running, ids := below(path, "Running")
		if q.MaxApps > 0 && q.RunningApps > q.MaxApps {
			// the count may be above the maximum only because the maximum was lowered (reload, application tag on a
			// dynamic queue) or the RM forced an application to run (allocation reported as already bound); the
			// scheduler itself never takes it there, and nothing else may raise it further
			pq := pre.Queues[path]
			grew := pq == nil || q.RunningApps > pq.RunningApps
			if grew && (decision || !forcedRunOps[op.Kind]) {
				w.vio("C11", "queue %s reports %d running applications, maximum is %d (count grew in step %s)", path, q.RunningApps, q.MaxApps, op.Kind)
			} else {
				w.Tag("c11-running-above-lowered-max")
			}
		}
		if q.RunningApps > uint64(running) {
			w.vio("C11", "queue %s reports %d running applications, only %d applications below it are Running", path, q.RunningApps, running)
		}
		for _, id := range q.AllocatingAccepted {
			if !ids[id] {
				w.vio("C11", "queue %s reports %s as allocating, it is not a live application below the queue", path, id)
			}
		}
		if len(ids) == 0 && (q.RunningApps != 0 || len(q.AllocatingAccepted) != 0) {
			w.vio("C11", "queue %s has no applications below it but reports %d running, %v allocating", path, q.RunningApps, q.AllocatingAccepted)
		}
	}
}
