package harness

import (
	"fmt"
	"sort"

	"github.com/apache/yunikorn-core/pkg/rmproxy/rmevent"
	siCommon "github.com/apache/yunikorn-scheduler-interface/lib/go/common"
)

// RecoveryItems lists what a shim replays to a restarted core, from the shim model only: nodes, live applications
// (force create), bound allocations (placeholders and foreign pods included) and outstanding asks. The two groups
// respect the real dependencies (a node before the allocations on it, an application before its asks and allocations).
func RecoveryItems(s *Shim) (first []Op, second []Op) {
	for _, id := range SortedKeys(s.Nodes) {
		n := s.Nodes[id]
		if n.State != "accepted" {
			continue
		}
		first = append(first, Op{Kind: OpAddNode, Node: id, Res: n.Capacity.Clone(), Drain: !n.Schedulable})
	}
	live := map[string]bool{}
	for _, id := range SortedKeys(s.Apps) {
		a := s.Apps[id]
		if a.State != "accepted" {
			continue
		}
		if n := len(a.States); n > 0 {
			switch a.States[n-1] {
			case "Completed", "Failed", "Expired", "Rejected", "Failing":
				continue
			}
		}
		live[id] = true
		op := a.Spec
		op.Kind = OpAddApp
		tags := map[string]string{}
		for k, v := range op.Tags {
			tags[k] = v
		}
		tags[siCommon.AppTagCreateForce] = "true"
		op.Tags = tags
		first = append(first, op)
	}
	for _, key := range SortedKeys(s.Keys) {
		k := s.Keys[key]
		if !live[k.App] {
			continue
		}
		op := k.Spec
		op.Res = k.Res.Clone()
		switch k.State {
		case KBound:
			if n := s.Nodes[k.Node]; n == nil || n.State != "accepted" {
				continue
			}
			op.Kind, op.Node, op.ReqNode = OpReportBound, k.Node, ""
			second = append(second, op)
		case KOutstanding:
			op.Kind, op.Node = OpAddAsk, ""
			if op.ReqNode != "" {
				if n := s.Nodes[op.ReqNode]; n == nil || n.State != "accepted" {
					op.ReqNode = ""
				}
			}
			second = append(second, op)
		}
	}
	for _, key := range SortedKeys(s.Foreign) {
		f := s.Foreign[key]
		if n := s.Nodes[f.Node]; n == nil || n.State != "accepted" {
			continue
		}
		second = append(second, Op{Kind: OpForeign, Key: f.Key, Node: f.Node, Res: f.Res.Clone(), Static: f.Static})
	}
	return first, second
}

// ShimTotals are the totals a restarted core must show, computed from the shim model only.
type ShimTotals struct {
	NodeAllocated, NodeOccupied  map[string]Res
	AppAllocated, AppPlaceholder map[string]Res
	AppPending                   map[string]Res
	UserUsage                    map[string]Res
	RootAllocated, RootPending   Res
}

// TotalsOf computes the totals for the items that are replayed.
func TotalsOf(s *Shim, first, second []Op) *ShimTotals {
	t := &ShimTotals{NodeAllocated: map[string]Res{}, NodeOccupied: map[string]Res{}, AppAllocated: map[string]Res{}, AppPlaceholder: map[string]Res{}, AppPending: map[string]Res{},
		UserUsage: map[string]Res{}, RootAllocated: Res{}, RootPending: Res{}}
	users := map[string]string{}
	for _, op := range first {
		switch op.Kind {
		case OpAddNode:
			t.NodeAllocated[op.Node], t.NodeOccupied[op.Node] = Res{}, Res{}
		case OpAddApp:
			t.AppAllocated[op.App], t.AppPlaceholder[op.App], t.AppPending[op.App] = Res{}, Res{}, Res{}
			users[op.App] = op.User
		}
	}
	for _, op := range second {
		switch op.Kind {
		case OpReportBound:
			t.NodeAllocated[op.Node].AddIn(op.Res)
			if op.Placeholder {
				t.AppPlaceholder[op.App].AddIn(op.Res)
			} else {
				t.AppAllocated[op.App].AddIn(op.Res)
			}
			if t.UserUsage[users[op.App]] == nil {
				t.UserUsage[users[op.App]] = Res{}
			}
			t.UserUsage[users[op.App]].AddIn(op.Res)
			t.RootAllocated.AddIn(op.Res)
		case OpAddAsk:
			t.AppPending[op.App].AddIn(op.Res)
			t.RootPending.AddIn(op.Res)
		case OpForeign:
			t.NodeOccupied[op.Node].AddIn(op.Res)
		}
	}
	return t
}

// CheckRecovered compares a restarted world with the totals the shim model implies. Returns the differences.
func CheckRecovered(w *World, t *ShimTotals) []string {
	var out []string
	s := w.Last
	for _, id := range SortedKeys(t.NodeAllocated) {
		n := s.Nodes[id]
		if n == nil {
			out = append(out, fmt.Sprintf("node %s was replayed but is not registered in the new core", id))
			continue
		}
		if !n.Allocated.Eq(t.NodeAllocated[id]) {
			out = append(out, fmt.Sprintf("node %s: allocated %s in the new core, the replayed allocations on it sum to %s", id, n.Allocated, t.NodeAllocated[id]))
		}
		if !n.Occupied.Eq(t.NodeOccupied[id]) {
			out = append(out, fmt.Sprintf("node %s: occupied %s in the new core, the replayed foreign allocations on it sum to %s", id, n.Occupied, t.NodeOccupied[id]))
		}
	}
	for _, id := range SortedKeys(t.AppAllocated) {
		a := s.Apps[id]
		if a == nil {
			out = append(out, fmt.Sprintf("application %s was replayed but is not a live application of the new core", id))
			continue
		}
		if !a.Allocated.Eq(t.AppAllocated[id]) || !a.Placeholder.Eq(t.AppPlaceholder[id]) || !a.Pending.Eq(t.AppPending[id]) {
			out = append(out, fmt.Sprintf("application %s: allocated %s placeholder %s pending %s in the new core, the replayed allocations and asks give %s / %s / %s",
				id, a.Allocated, a.Placeholder, a.Pending, t.AppAllocated[id], t.AppPlaceholder[id], t.AppPending[id]))
		}
	}
	users := map[string]bool{}
	for u := range t.UserUsage {
		users[u] = true
	}
	for u := range s.Users {
		users[u] = true
	}
	var ul []string
	for u := range users {
		ul = append(ul, u)
	}
	sort.Strings(ul)
	for _, u := range ul {
		want := t.UserUsage[u]
		if want == nil {
			want = Res{}
		}
		got := Res{}
		if tr := s.Users[u]; tr != nil {
			got = tr.Usage["root"]
		}
		if got == nil {
			got = Res{}
		}
		if !got.Eq(want) {
			out = append(out, fmt.Sprintf("user %s: tracked usage %s in the new core, the replayed allocations of the user's applications sum to %s", u, got, want))
		}
	}
	if root := s.Queues["root"]; root != nil {
		if !root.Allocated.Eq(t.RootAllocated) || !root.Pending.Eq(t.RootPending) {
			out = append(out, fmt.Sprintf("root queue: allocated %s pending %s in the new core, replayed totals are %s / %s", root.Allocated, root.Pending, t.RootAllocated, t.RootPending))
		}
	}
	return out
}

// Rejections lists what the core refused in the events of a step.
func Rejections(res *StepResult) []string {
	var out []string
	for _, ev := range res.Events {
		switch v := ev.(type) {
		case *rmevent.RMApplicationUpdateEvent:
			for _, r := range v.RejectedApplications {
				out = append(out, fmt.Sprintf("application %s rejected: %s", r.ApplicationID, r.Reason))
			}
		case *rmevent.RMNodeUpdateEvent:
			for _, r := range v.RejectedNodes {
				out = append(out, fmt.Sprintf("node %s rejected: %s", r.NodeID, r.Reason))
			}
		case *rmevent.RMRejectedAllocationEvent:
			for _, r := range v.RejectedAllocations {
				out = append(out, fmt.Sprintf("allocation %s of %s rejected: %s", r.AllocationKey, r.ApplicationID, r.Reason))
			}
		}
	}
	return out
}

// SeqOf / SetSeq carry the id counter over a restart so that new ids stay unique.
func (s *Shim) SeqOf() int   { return s.seq }
func (s *Shim) SetSeq(n int) { s.seq = n }

// Vio records a violation from outside the package (checks that orchestrate several worlds).
func (w *World) Vio(prop, format string, args ...interface{}) { w.vio(prop, format, args...) }
