package harness

import (
	"fmt"
	"net/http/httptest"
	"os"
	"regexp"
	"runtime"
	"sort"
	"strings"
	"sync"
	"sync/atomic"
	"time"

	"github.com/apache/yunikorn-core/pkg/common/configs"
	"github.com/apache/yunikorn-core/pkg/entrypoint"
	"github.com/apache/yunikorn-core/pkg/events"
	"github.com/apache/yunikorn-core/pkg/locking"
	"github.com/apache/yunikorn-core/pkg/plugins"
	"github.com/apache/yunikorn-core/pkg/scheduler/objects"
	"github.com/apache/yunikorn-core/pkg/scheduler/ugm"
	"github.com/apache/yunikorn-core/pkg/webservice"
	"github.com/apache/yunikorn-scheduler-interface/lib/go/api"
	"github.com/apache/yunikorn-scheduler-interface/lib/go/si"
)

// AsyncOp is one request of a client script of the asynchronous (real goroutine stack) runs of C14.
type AsyncOp struct {
	Kind  string `json:"kind"` // addnode updnode drain undrain rmnode addapp rmapp ask release reload quota pause
	Node  string `json:"node,omitempty"`
	App   string `json:"app,omitempty"`
	Key   string `json:"key,omitempty"`
	Queue string `json:"queue,omitempty"`
	User  string `json:"user,omitempty"`
	Res   Res    `json:"res,omitempty"`
	PhAsk Res    `json:"phask,omitempty"`
	TG    string `json:"tg,omitempty"`
	Ph    bool   `json:"ph,omitempty"`
	Prio  int32  `json:"prio,omitempty"`
	Conf  string `json:"conf,omitempty"`
	Other bool   `json:"preemptother,omitempty"`
}

// AsyncCase is a whole run: configuration, one script per client goroutine, number of reader goroutines.
type AsyncCase struct {
	Conf    string      `json:"conf"`
	Nodes   []AsyncOp   `json:"nodes"`   // registered before the clients start
	Clients [][]AsyncOp `json:"clients"` // one script per client goroutine
	Readers int         `json:"readers"`
}

// AsyncResult is what a run produced.
type AsyncResult struct {
	Violations []string
	Ops        int
	Swaps      int
	Preempted  int
	Reloads    int
	Allocs     int
	Problem    string // infrastructure problem (not a verdict)
	Log        []string
	RestCalls  int
	// KnownLockReports counts lock tracker reports that match a listed finding
	KnownLockReports int
}

// LockOrderAppLocksShape is the exclusion of the listed finding about application locks taken in both orders by the
// preemption code of the scheduling cycle.
const LockOrderAppLocksShape = "lock-order-app-locks-in-preemption"

var lockOrderAppLocks = regexp.MustCompile(`(?s)Inconsistent locking.*\(\*Application\)\.tryAllocate.*findEligiblePreemptionVictims`)

// restURLs are the read-only REST end points the reader goroutines call while the clients run.
var restURLs = []string{
	"/ws/v1/partition/default/queues",
	"/ws/v1/partition/default/nodes",
	"/ws/v1/partition/default/applications/active",
	"/ws/v1/partition/default/application/:app",
	"/ws/v1/partition/default/usage/users",
	"/ws/v1/partition/default/usage/groups",
	"/ws/v1/partitions",
	"/ws/v1/clusters",
	"/ws/v1/scheduler/healthcheck",
	"/ws/v1/scheduler/node-utilizations",
	"/ws/v1/partition/default/applications/completed",
	"/ws/v1/partition/default/applications/rejected",
	"/ws/v1/fullstatedump",
	"/ws/v1/events/batch",
	"/ws/v1/partition/default/placementrules",
}

type asyncLog struct {
	mu    sync.Mutex
	start time.Time
	lines []string
}

func (l *asyncLog) add(format string, a ...interface{}) {
	l.mu.Lock()
	l.lines = append(l.lines, fmt.Sprintf("%8.3fms ", float64(time.Since(l.start).Microseconds())/1000)+fmt.Sprintf(format, a...))
	l.mu.Unlock()
}

// about returns the lines that mention one of the words
func (l *asyncLog) about(words ...string) []string {
	l.mu.Lock()
	defer l.mu.Unlock()
	var out []string
	for _, line := range l.lines {
		for _, w := range words {
			if w != "" && strings.Contains(line, w+" ") {
				out = append(out, line)
				break
			}
		}
	}
	return out
}

type asyncShim struct {
	mu        sync.Mutex
	proxy     api.SchedulerAPI
	confirmCh chan *si.AllocationRelease
	swaps     atomic.Int64
	preempted atomic.Int64
	allocs    atomic.Int64
	stop      chan struct{}
	log       *asyncLog
	acks      sync.Map // sentinel application / node IDs the core has answered
}

func (s *asyncShim) UpdateAllocation(r *si.AllocationResponse) error {
	s.allocs.Add(int64(len(r.New)))
	for _, a := range r.New {
		s.log.add("core: allocated %s %s on %s", a.ApplicationID, a.AllocationKey, a.NodeID)
	}
	for _, a := range r.RejectedAllocations {
		s.log.add("core: rejected %s %s : %s", a.ApplicationID, a.AllocationKey, a.Reason)
	}
	for _, rel := range r.Released {
		s.log.add("core: released %s %s type %s", rel.ApplicationID, rel.AllocationKey, rel.TerminationType)
		switch rel.TerminationType {
		case si.TerminationType_PLACEHOLDER_REPLACED:
			s.swaps.Add(1)
		case si.TerminationType_PREEMPTED_BY_SCHEDULER:
			s.preempted.Add(1)
		case si.TerminationType_TIMEOUT:
		default:
			continue
		}
		// the shim stops the pod and confirms: from another goroutine, a little later
		c := &si.AllocationRelease{PartitionName: "default", ApplicationID: rel.ApplicationID, AllocationKey: rel.AllocationKey, TerminationType: rel.TerminationType, Message: "confirmed"}
		select {
		case s.confirmCh <- c:
		case <-s.stop:
		}
	}
	return nil
}
func (s *asyncShim) UpdateApplication(r *si.ApplicationResponse) error {
	for _, a := range r.Accepted {
		if strings.HasPrefix(a.ApplicationID, "sentinel-") {
			s.acks.Store(a.ApplicationID, true)
			continue
		}
		s.log.add("core: accepted %s ", a.ApplicationID)
	}
	for _, a := range r.Rejected {
		if strings.HasPrefix(a.ApplicationID, "sentinel-") {
			s.acks.Store(a.ApplicationID, true)
			continue
		}
		s.log.add("core: rejected app %s : %s", a.ApplicationID, a.Reason)
	}
	for _, a := range r.Updated {
		s.log.add("core: app %s state %s", a.ApplicationID, a.State)
	}
	return nil
}
func (s *asyncShim) UpdateNode(r *si.NodeResponse) error {
	for _, n := range r.Accepted {
		if strings.HasPrefix(n.NodeID, "sentinel-") {
			s.acks.Store(n.NodeID, true)
		}
	}
	for _, n := range r.Rejected {
		if strings.HasPrefix(n.NodeID, "sentinel-") {
			s.acks.Store(n.NodeID, true)
		}
	}
	return nil
}
func (s *asyncShim) Predicates(*si.PredicatesArgs) error { return nil }
func (s *asyncShim) PreemptionPredicates(a *si.PreemptionPredicatesArgs) *si.PreemptionPredicatesResponse {
	return &si.PreemptionPredicatesResponse{Success: true, Index: a.StartIndex}
}
func (s *asyncShim) SendEvent([]*si.EventRecord)                                              {}
func (s *asyncShim) UpdateContainerSchedulingState(*si.UpdateContainerSchedulingStateRequest) {}
func (s *asyncShim) GetStateDump() (string, error)                                            { return "{}", nil }

func (o AsyncOp) send(proxy api.SchedulerAPI) error {
	part := "default"
	switch o.Kind {
	case "addnode", "updnode", "drain", "undrain", "rmnode":
		act := map[string]si.NodeInfo_ActionFromRM{"addnode": si.NodeInfo_CREATE, "updnode": si.NodeInfo_UPDATE, "drain": si.NodeInfo_DRAIN_NODE, "undrain": si.NodeInfo_DRAIN_TO_SCHEDULABLE, "rmnode": si.NodeInfo_DECOMISSION}[o.Kind]
		n := nodeInfo(o.Node, act, o.Res)
		n.Attributes["si/node-partition"] = part
		return proxy.UpdateNode(&si.NodeRequest{RmID: RmID, Nodes: []*si.NodeInfo{n}})
	case "addapp":
		req := &si.AddApplicationRequest{ApplicationID: o.App, QueueName: o.Queue, PartitionName: part, Ugi: &si.UserGroupInformation{User: o.User, Groups: UserGroups[o.User]},
			ExecutionTimeoutMilliSeconds: 60000, Tags: map[string]string{}}
		if len(o.PhAsk) > 0 {
			req.PlaceholderAsk = o.PhAsk.SI()
			req.GangSchedulingStyle = "Soft"
		}
		return proxy.UpdateApplication(&si.ApplicationRequest{RmID: RmID, New: []*si.AddApplicationRequest{req}})
	case "rmapp":
		return proxy.UpdateApplication(&si.ApplicationRequest{RmID: RmID, Remove: []*si.RemoveApplicationRequest{{ApplicationID: o.App, PartitionName: part}}})
	case "ask":
		a := &si.Allocation{AllocationKey: o.Key, ApplicationID: o.App, PartitionName: part, ResourcePerAlloc: o.Res.SI(), Priority: o.Prio, Placeholder: o.Ph, TaskGroupName: o.TG,
			PreemptionPolicy: &si.PreemptionPolicy{AllowPreemptSelf: true, AllowPreemptOther: o.Other}, AllocationTags: map[string]string{}}
		return proxy.UpdateAllocation(&si.AllocationRequest{RmID: RmID, Allocations: []*si.Allocation{a}})
	case "release":
		return proxy.UpdateAllocation(&si.AllocationRequest{RmID: RmID, Releases: &si.AllocationReleasesRequest{AllocationsToRelease: []*si.AllocationRelease{
			{PartitionName: part, ApplicationID: o.App, AllocationKey: o.Key, TerminationType: si.TerminationType_STOPPED_BY_RM}}}})
	case "reload":
		return proxy.UpdateConfiguration(&si.UpdateConfigurationRequest{RmID: RmID, PolicyGroup: "queues", Config: o.Conf, ExtraConfig: LogConfig})
	case "pause":
		time.Sleep(200 * time.Microsecond)
	}
	return nil
}

// RunAsync executes a case on the real asynchronous stack and checks the final state. The race detector and the
// deadlock detector (when the binary / environment enable them) watch the run; their reports end the process or are
// picked up at the end.
func RunAsync(c AsyncCase, yield func()) *AsyncResult {
	res := &AsyncResult{}
	worldMu.Lock()
	defer worldMu.Unlock()
	InitLogging()
	events.Init()
	m := ugm.GetUserManager()
	m.ClearUserTrackers()
	m.ClearGroupTrackers()
	m.ClearConfigLimits()
	plugins.UnregisterSchedulerPlugins()
	saved := objects.VerifGetTimings()
	tm := saved
	tm.ReservationDelay = 0
	tm.CompletingTimeout = 50 * time.Millisecond
	objects.VerifSetTimings(tm)
	defer objects.VerifSetTimings(saved)
	locking.VerifSetYield(yield)
	defer locking.VerifSetYield(nil)

	ctx := entrypoint.StartAllServicesWithParams(false, false)
	defer func() {
		ctx.StopAll()
		// the stack has no join: wait until the scheduler's own goroutines are gone so that nothing of this run touches the
		// process wide singletons (user manager, event system) that the next run resets
		if left := waitSchedulerGone(budget(15 * time.Second)); left != "" {
			res.timedOut("goroutines of the scheduler still run 15s after the services were stopped")
		}
	}()
	alog := &asyncLog{start: time.Now()}
	shim := &asyncShim{proxy: ctx.RMProxy, confirmCh: make(chan *si.AllocationRelease, 10000), stop: make(chan struct{}), log: alog}
	if _, err := ctx.RMProxy.RegisterResourceManager(&si.RegisterResourceManagerRequest{RmID: RmID, PolicyGroup: "queues", Version: "v1", Config: c.Conf, ExtraConfig: LogConfig}, shim); err != nil {
		res.Problem = "registration failed: " + err.Error()
		return res
	}
	cc := ctx.Scheduler.GetClusterContext()
	var wg sync.WaitGroup
	// the shim confirms releases from its own goroutine
	confirmDone := make(chan struct{})
	go func() {
		defer close(confirmDone)
		for {
			select {
			case rel := <-shim.confirmCh:
				alog.add("shim: confirm %s %s type %s", rel.ApplicationID, rel.AllocationKey, rel.TerminationType)
				_ = ctx.RMProxy.UpdateAllocation(&si.AllocationRequest{RmID: RmID, Releases: &si.AllocationReleasesRequest{AllocationsToRelease: []*si.AllocationRelease{rel}}})
			case <-shim.stop:
				return
			}
		}
	}()
	for _, n := range c.Nodes {
		_ = n.send(ctx.RMProxy)
	}
	var ops, reloads, restCalls, restErrors atomic.Int64
	router := webservice.VerifRouter(cc)
	stopReaders := make(chan struct{})
	var readerWg sync.WaitGroup
	for r := 0; r < c.Readers; r++ {
		readerWg.Add(1)
		go func(r int) {
			defer readerWg.Done()
			for i := 0; ; i++ {
				select {
				case <-stopReaders:
					return
				default:
				}
				part := cc.GetPartition(PartName)
				if part == nil {
					runtime.Gosched()
					continue
				}
				// the real REST handlers, in process (no listener), plus the snapshot reader of the harness
				if (i+r)%len(restURLs) == 0 {
					_ = TakeSnapshot(cc, PartName)
				}
				url := restURLs[(i+r)%len(restURLs)]
				if strings.Contains(url, ":app") {
					apps := part.GetApplications()
					if len(apps) == 0 {
						continue
					}
					url = strings.Replace(url, ":app", apps[(i+r)%len(apps)].ApplicationID, 1)
				}
				rec := httptest.NewRecorder()
				router.ServeHTTP(rec, httptest.NewRequest("GET", url, nil))
				if rec.Code >= 500 {
					restErrors.Add(1)
				}
				restCalls.Add(1)
				runtime.Gosched()
			}
		}(r)
	}
	clientErr := make(chan string, len(c.Clients))
	for ci, script := range c.Clients {
		wg.Add(1)
		go func(ci int, script []AsyncOp) {
			defer wg.Done()
			for _, op := range script {
				if op.Kind != "pause" {
					alog.add("client %d: %s %s %s %s %v ph=%v user=%s queue=%s", ci, op.Kind, op.Node, op.App, op.Key, op.Res, op.Ph, op.User, op.Queue)
				}
				if err := op.send(ctx.RMProxy); err != nil && op.Kind != "reload" {
					select {
					case clientErr <- fmt.Sprintf("client %d: %s: %v", ci, op.Kind, err):
					default:
					}
				}
				ops.Add(1)
				if op.Kind == "reload" {
					reloads.Add(1)
				}
				runtime.Gosched()
			}
		}(ci, script)
	}
	done := make(chan struct{})
	go func() { wg.Wait(); close(done) }()
	select {
	case <-done:
	case <-time.After(budget(90 * time.Second)):
		res.timedOut("a client request did not return within 90s")
		return res
	}
	// input stops: remove every application, let the system settle
	apps := map[string]bool{}
	for _, script := range c.Clients {
		for _, op := range script {
			if op.Kind == "addapp" {
				apps[op.App] = true
			}
		}
	}
	sentinels := 0
	// drained: the event handlers have processed everything sent so far. The application / allocation events and the node
	// events are handled first in first out by one goroutine each: a sentinel request at the end of each queue that the
	// core answers (an application for a queue that does not exist: rejected; a node without resources: accepted, and
	// removed again) proves that everything before it has been handled.
	drained := func(what string) bool {
		sentinels++
		appID, nodeID := fmt.Sprintf("sentinel-app-%d", sentinels), fmt.Sprintf("sentinel-node-%d", sentinels)
		_ = ctx.RMProxy.UpdateApplication(&si.ApplicationRequest{RmID: RmID, New: []*si.AddApplicationRequest{{ApplicationID: appID, QueueName: "root.nosuchparent.nosuchqueue", PartitionName: "default",
			Ugi: &si.UserGroupInformation{User: "sentinel"}, Tags: map[string]string{}}}})
		_ = AsyncOp{Kind: "addnode", Node: nodeID, Res: Res{}}.send(ctx.RMProxy)
		deadline := time.Now().Add(budget(120 * time.Second))
		for time.Now().Before(deadline) {
			_, a := shim.acks.Load(appID)
			_, n := shim.acks.Load(nodeID)
			if a && n {
				_ = AsyncOp{Kind: "rmnode", Node: nodeID}.send(ctx.RMProxy)
				_ = AsyncOp{Kind: "rmapp", App: appID}.send(ctx.RMProxy) // in case a placement rule created the queue
				for time.Now().Before(deadline) {
					if part := cc.GetPartition(PartName); part == nil || part.GetNode(nodeID) == nil {
						return true
					}
					time.Sleep(5 * time.Millisecond)
				}
			}
			time.Sleep(5 * time.Millisecond)
		}
		res.timedOut("an RM event handler did not answer a request within 120s after " + what)
		return false
	}
	settle := func(what string) bool {
		if !drained(what) {
			return false
		}
		var last string
		stable := 0
		deadline := time.Now().Add(budget(60 * time.Second))
		for time.Now().Before(deadline) {
			time.Sleep(30 * time.Millisecond)
			if len(shim.confirmCh) > 0 {
				stable = 0
				continue
			}
			s := TakeSnapshot(cc, PartName)
			cur := snapshotForCompare(s)
			busy := false
			for _, a := range s.Apps {
				for _, al := range a.Allocs {
					if al.Released || al.Preempted {
						busy = true
					}
				}
			}
			if cur == last && !busy {
				stable++
				if stable >= 5 {
					return true
				}
			} else {
				stable = 0
			}
			last = cur
		}
		res.timedOut("the system did not settle within 60s after " + what)
		return false
	}
	if !settle("the clients stopped") {
		return res
	}
	check := func(when string) {
		s := TakeSnapshot(cc, PartName)
		for _, v := range CheckSnapshot(s) {
			res.Violations = append(res.Violations, when+": "+v.Msg)
		}
	}
	check("at quiescence")
	explain := func(s *Snapshot) {
		// history of the applications (and of the applications of the users) the violations mention
		words := map[string]bool{}
		for _, v := range res.Violations {
			for _, m := range appWord.FindAllString(v, -1) {
				words[m] = true
			}
			for _, m := range userWord.FindAllStringSubmatch(v, -1) {
				for id, a := range s.Apps {
					if a.User == m[1] {
						words[id] = true
					}
				}
				for _, l := range alog.about("user=" + m[1]) {
					if f := appWord.FindString(l); f != "" {
						words[f] = true
					}
				}
			}
		}
		if len(words) > 0 && len(words) <= 6 {
			words["reload"] = true
			res.Violations = append(res.Violations, "history:\n  "+strings.Join(alog.about(SortedKeys(words)...), "\n  "))
		}
	}
	if len(res.Violations) > 0 {
		explain(TakeSnapshot(cc, PartName))
	}
	ids := make([]string, 0, len(apps))
	for id := range apps {
		ids = append(ids, id)
	}
	sort.Strings(ids)
	for _, id := range ids {
		alog.add("final: rmapp %s ", id)
		_ = AsyncOp{Kind: "rmapp", App: id}.send(ctx.RMProxy)
	}
	if settle("every application was removed") {
		s := TakeSnapshot(cc, PartName)
		w := &World{Checks: map[string]bool{"*": true}, Tags: map[string]int{}, Last: s}
		w.CheckAllZero()
		for _, v := range w.Vios {
			res.Violations = append(res.Violations, "after removing every application: "+v.Msg)
		}
		if len(w.Vios) > 0 {
			explain(s)
			// explain what is left: the history of every allocation still on a node
			for _, n := range s.Nodes {
				for _, al := range n.Allocs {
					res.Violations = append(res.Violations, fmt.Sprintf("history of %s / %s still on %s:\n  %s", al.App, al.Key, n.ID, strings.Join(alog.about(al.Key, al.App), "\n  ")))
				}
			}
		}
	}
	close(stopReaders)
	readerWg.Wait()
	close(shim.stop)
	<-confirmDone
	// the reports of the lock tracker since the last run (the flag of the locking package is sticky for the process)
	for _, report := range LockTrackerReports() {
		if Excluded(LockOrderAppLocksShape) && lockOrderAppLocks.MatchString(report) {
			// listed finding: the scheduling cycle holds the lock of the asking application while it reads the allocations of
			// the applications in the victim queues; with two asking applications both orders are seen
			res.KnownLockReports++
			continue
		}
		if len(report) > 12000 {
			report = report[:12000]
		}
		res.Violations = append(res.Violations, "the lock tracker reported a potential deadlock or lock order inversion:\n"+report)
	}
	_ = locking.IsDeadlockDetected
	select {
	case e := <-clientErr:
		res.Problem = e
	default:
	}
	if path := os.Getenv("VERIF_C14_LOG"); path != "" && len(res.Violations) > 0 {
		alog.mu.Lock()
		_ = os.WriteFile(path, []byte(strings.Join(res.Violations, "\n")+"\n\n"+strings.Join(alog.lines, "\n")+"\n"), 0o644)
		alog.mu.Unlock()
	}
	res.Ops = int(ops.Load())
	res.Reloads = int(reloads.Load())
	res.RestCalls = int(restCalls.Load())
	res.Swaps, res.Preempted, res.Allocs = int(shim.swaps.Load()), int(shim.preempted.Load()), int(shim.allocs.Load())
	return res
}

var appWord = regexp.MustCompile(`app-\d+-\d+`)
var userWord = regexp.MustCompile(`user (u\d)`)

// waitSchedulerGone polls until no goroutine runs scheduler service code (loop, handlers, health check, monitors).
func waitSchedulerGone(max time.Duration) string {
	deadline := time.Now().Add(max)
	for {
		buf := make([]byte, 4<<20)
		n := runtime.Stack(buf, true)
		var left []string
		for _, g := range strings.Split(string(buf[:n]), "\n\n") {
			if strings.Contains(g, "pkg/scheduler.(*Scheduler)") || strings.Contains(g, "pkg/scheduler.(*ClusterContext)") || strings.Contains(g, "pkg/scheduler.(*HealthChecker)") || strings.Contains(g, "pkg/scheduler.(*partitionManager).remove") || strings.Contains(g, "pkg/rmproxy.(*RMProxy).handle") {
				if strings.Contains(g, "waitSchedulerGone") {
					continue
				}
				left = append(left, firstLines(g, 16))
			}
		}
		if len(left) == 0 {
			return ""
		}
		if time.Now().After(deadline) {
			return strings.Join(left, "\n\n")
		}
		time.Sleep(20 * time.Millisecond)
	}
}

// blockedForGood reports the goroutines running core code that wait for a lock, a channel or a wait group at the same
// place in two dumps three seconds apart: a time budget that ran out is only a verdict (blocked goroutine) when something
// is really stuck, otherwise the machine was too slow and the run is inconclusive.
func blockedForGood() string {
	take := func() map[string]string {
		buf := make([]byte, 8<<20)
		n := runtime.Stack(buf, true)
		out := map[string]string{}
		for _, g := range strings.Split(string(buf[:n]), "\n\n") {
			if !strings.Contains(g, "yunikorn-core/pkg") {
				continue
			}
			head := strings.SplitN(g, "\n", 2)[0]
			if !(strings.Contains(head, "[sync.") || strings.Contains(head, "[semacquire") || strings.Contains(head, "[chan send") || strings.Contains(head, "[select (no cases)")) {
				continue
			}
			id := strings.Fields(head)[1]
			out[id] = firstLines(g, 18)
		}
		return out
	}
	a := take()
	if len(a) == 0 {
		return ""
	}
	time.Sleep(3 * time.Second)
	b := take()
	var stuck []string
	for id, st := range a {
		if st2, ok := b[id]; ok && sameFrames(st, st2) {
			stuck = append(stuck, st2)
		}
	}
	sort.Strings(stuck)
	if len(stuck) > 8 {
		stuck = stuck[:8]
	}
	return strings.Join(stuck, "\n\n")
}

func sameFrames(a, b string) bool {
	la, lb := strings.Split(a, "\n"), strings.Split(b, "\n")
	if len(la) != len(lb) {
		return false
	}
	for i := 1; i < len(la); i++ { // the header carries the wait time
		if la[i] != lb[i] {
			return false
		}
	}
	return true
}

// budget scales a time budget: the thorough tier runs a dozen race instrumented processes next to each other
func budget(d time.Duration) time.Duration {
	if Thorough() {
		return 4 * d
	}
	return d
}

// timedOut turns a time budget that ran out into a verdict or an infrastructure problem.
func (res *AsyncResult) timedOut(what string) {
	if stuck := blockedForGood(); stuck != "" {
		res.Violations = append(res.Violations, what+": goroutines of the core are blocked\n"+stuck)
		return
	}
	res.Problem = what + " (nothing is blocked: the machine is too slow, inconclusive)"
}

func goroutineDump() string {
	buf := make([]byte, 1<<20)
	n := runtime.Stack(buf, true)
	var out []string
	for _, g := range strings.Split(string(buf[:n]), "\n\n") {
		if strings.Contains(g, "yunikorn-core") && (strings.Contains(g, "semacquire") || strings.Contains(g, "chan send") || strings.Contains(g, "Lock")) {
			out = append(out, firstLines(g, 14))
		}
		if len(out) > 12 {
			break
		}
	}
	return strings.Join(out, "\n\n")
}

// CheckSnapshot runs the quiescent-state oracles (node ledger, accounting, tracked usage, reservation views) on one
// snapshot.
func CheckSnapshot(s *Snapshot) []Violation {
	w := &World{Checks: map[string]bool{"C01": true, "C03": true, "C05": true, "C09": true}, Tags: map[string]int{}, Last: s, Opts: WorldOpts{NoPredicates: true}, Shim: NewShim()}
	op := Op{Kind: OpReportBound} // a forced op: only the quiescent clauses apply
	w.oracleC01(s, op, s, false, nil)
	w.oracleC03(s)
	w.checkTrackedUsage(s)
	w.oracleC09(s, op, s, false)
	return w.Vios
}

var _ = configs.DOT
