package harness

import (
	"fmt"
	"github.com/apache/yunikorn-core/pkg/scheduler"
	"github.com/apache/yunikorn-core/pkg/scheduler/objects"
	"sort"
	"strconv"
	"strings"
	"time"

	"github.com/apache/yunikorn-core/pkg/common/configs"
	"github.com/apache/yunikorn-core/pkg/rmproxy/rmevent"
	siCommon "github.com/apache/yunikorn-scheduler-interface/lib/go/common"
	"github.com/apache/yunikorn-scheduler-interface/lib/go/si"
)

// Op is one step of a history, fully resolved (no indices): a value that can be stored and replayed.
type Op struct {
	Kind string `json:"kind"`
	Node string `json:"node,omitempty"`
	App  string `json:"app,omitempty"`
	Key  string `json:"key,omitempty"`
	Res  Res    `json:"res,omitempty"`
	// AddApp
	Queue  string            `json:"queue,omitempty"`
	User   string            `json:"user,omitempty"`
	Groups []string          `json:"groups,omitempty"`
	Tags   map[string]string `json:"tags,omitempty"`
	PhAsk  Res               `json:"phask,omitempty"`
	Style  string            `json:"style,omitempty"`
	TGs    []TGSpec          `json:"tgs,omitempty"`
	// AddAsk / ReportBound
	Prio        int32  `json:"prio,omitempty"`
	Placeholder bool   `json:"placeholder,omitempty"`
	TaskGroup   string `json:"taskgroup,omitempty"`
	ReqNode     string `json:"reqnode,omitempty"`
	AllowSelf   bool   `json:"allowself,omitempty"`
	AllowOther  bool   `json:"allowother,omitempty"`
	Originator  bool   `json:"originator,omitempty"`
	AgeSec      int64  `json:"age,omitempty"`
	// Release / Confirm
	Term string `json:"term,omitempty"`
	Keep bool   `json:"keep,omitempty"` // Confirm: keep the confirmation queued so it can be delivered again
	// AddNode
	Drain bool `json:"drain,omitempty"`
	// SetPred
	Allow bool `json:"allow,omitempty"`
	// Reload
	Conf string `json:"conf,omitempty"`
	// Foreign
	Static bool `json:"static,omitempty"`
	// Hostile: raw request, JSON encoded protobuf
	Raw string `json:"raw,omitempty"`
	// Hostile: what the expectation in Term relies on ("app-live:id", "app-gone:id", "node-live:id", "node-gone:id",
	// "key-outstanding:key", "no-app:id"); a reduced history in which this no longer holds is not a counterexample
	Need []string `json:"need,omitempty"`
	N    int      `json:"n,omitempty"`
	// ScheduleRace
	Race string `json:"race,omitempty"`
}

// Op kinds.
const (
	OpAddNode     = "AddNode"
	OpUpdNode     = "UpdateNode"
	OpDrainNode   = "DrainNode"
	OpUndrainNode = "UndrainNode"
	OpDecomNode   = "DecommissionNode"
	OpAddApp      = "AddApp"
	OpRemoveApp   = "RemoveApp"
	OpAddAsk      = "AddAsk"
	OpUpdAsk      = "UpdateAskResources"
	OpReportBound = "ReportBound"
	OpRelease     = "Release"
	OpConfirm     = "Confirm"
	OpDropConfirm = "DropConfirm"
	OpForeign     = "Foreign"
	OpForeignDel  = "ForeignRemove"
	OpSchedule    = "Schedule"
	OpFirePh      = "FirePlaceholderTimer"
	OpFireState   = "FireStateTimer"
	OpReload      = "Reload"
	OpCleanQueues = "CleanQueues"
	OpQuotaPre    = "QuotaPreempt"
	OpSetPred     = "SetPredicate"
	OpCleanExp    = "CleanExpired"
	OpRemovePart  = "RemovePartitions"
	OpInspect     = "InspectOutstanding"
	OpHostile     = "Hostile"
	// OpScheduleRace is a scheduling cycle with an RM request delivered between its two halves (after the application
	// allocated / reserved / started a replacement, before the partition processes that result). Race names the request,
	// it is resolved against the result of the cycle: release-ask, remove-app, remove-node, drain-node, release-placeholder.
	OpScheduleRace = "ScheduleRace"
)

func (o Op) String() string {
	var b strings.Builder
	b.WriteString(o.Kind)
	add := func(k string, v interface{}) { fmt.Fprintf(&b, " %s=%v", k, v) }
	if o.Node != "" {
		add("node", o.Node)
	}
	if o.App != "" {
		add("app", o.App)
	}
	if o.Key != "" {
		add("key", o.Key)
	}
	if len(o.Res) > 0 {
		add("res", o.Res)
	}
	if o.Race != "" {
		add("race", o.Race)
	}
	if o.Queue != "" {
		add("queue", o.Queue)
	}
	if o.User != "" {
		add("user", o.User)
	}
	if len(o.Tags) > 0 {
		add("tags", o.Tags)
	}
	if len(o.PhAsk) > 0 {
		add("phask", o.PhAsk)
		add("style", o.Style)
	}
	if o.Prio != 0 {
		add("prio", o.Prio)
	}
	if o.Placeholder {
		add("placeholder", true)
	}
	if o.TaskGroup != "" {
		add("tg", o.TaskGroup)
	}
	if o.ReqNode != "" {
		add("reqnode", o.ReqNode)
	}
	if o.AllowOther {
		add("preemptOther", true)
	}
	if o.Kind == OpAddAsk && !o.AllowSelf {
		add("preemptSelf", false)
	}
	if o.Originator {
		add("originator", true)
	}
	if o.AgeSec != 0 {
		add("age", o.AgeSec)
	}
	if o.Term != "" {
		add("term", o.Term)
	}
	if o.Keep {
		add("keep", true)
	}
	if o.Drain {
		add("drain", true)
	}
	if o.Kind == OpSetPred {
		add("allow", o.Allow)
	}
	if o.Static {
		add("static", true)
	}
	if o.Conf != "" {
		add("conf", fmt.Sprintf("<%d bytes #%x>", len(o.Conf), Fingerprint(o.Conf)&0xffff))
	}
	if o.Raw != "" {
		add("raw", o.Raw)
	}
	return b.String()
}

func termType(s string) si.TerminationType {
	if v, ok := si.TerminationType_value[s]; ok {
		return si.TerminationType(v)
	}
	return si.TerminationType_STOPPED_BY_RM
}

func (o Op) siAlloc(withNode bool) *si.Allocation {
	a := &si.Allocation{
		AllocationKey: o.Key, ApplicationID: o.App, PartitionName: PartName, ResourcePerAlloc: o.Res.SI(), Priority: o.Prio,
		Placeholder: o.Placeholder, TaskGroupName: o.TaskGroup, Originator: o.Originator,
		PreemptionPolicy: &si.PreemptionPolicy{AllowPreemptSelf: o.AllowSelf, AllowPreemptOther: o.AllowOther},
		AllocationTags:   map[string]string{},
	}
	// ask age: creation time tag in seconds; never near a delay boundary (now or long ago)
	a.AllocationTags[siCommon.DomainYuniKorn+siCommon.CreationTime] = strconv.FormatInt(time.Now().Unix()-o.AgeSec, 10)
	if o.ReqNode != "" {
		a.AllocationTags[siCommon.DomainYuniKorn+siCommon.KeyRequiredNode] = o.ReqNode
	}
	if withNode {
		a.NodeID = o.Node
	}
	return a
}

func nodeInfo(id string, action si.NodeInfo_ActionFromRM, capacity Res) *si.NodeInfo {
	n := &si.NodeInfo{NodeID: id, Action: action, Attributes: map[string]string{siCommon.NodePartition: PartName, siCommon.HostName: id, siCommon.InstanceType: "type-" + id[len(id)-1:]}}
	if capacity != nil {
		n.SchedulableResource = capacity.SI()
	}
	return n
}

// request builds the RM event for an op; nil when the op is not an SI request.
func (o Op) request() interface{} {
	switch o.Kind {
	case OpAddNode:
		act := si.NodeInfo_CREATE
		if o.Drain {
			act = si.NodeInfo_CREATE_DRAIN
		}
		return &rmevent.RMUpdateNodeEvent{Request: &si.NodeRequest{RmID: RmID, Nodes: []*si.NodeInfo{nodeInfo(o.Node, act, o.Res)}}}
	case OpUpdNode:
		return &rmevent.RMUpdateNodeEvent{Request: &si.NodeRequest{RmID: RmID, Nodes: []*si.NodeInfo{nodeInfo(o.Node, si.NodeInfo_UPDATE, o.Res)}}}
	case OpDrainNode:
		return &rmevent.RMUpdateNodeEvent{Request: &si.NodeRequest{RmID: RmID, Nodes: []*si.NodeInfo{nodeInfo(o.Node, si.NodeInfo_DRAIN_NODE, nil)}}}
	case OpUndrainNode:
		return &rmevent.RMUpdateNodeEvent{Request: &si.NodeRequest{RmID: RmID, Nodes: []*si.NodeInfo{nodeInfo(o.Node, si.NodeInfo_DRAIN_TO_SCHEDULABLE, nil)}}}
	case OpDecomNode:
		return &rmevent.RMUpdateNodeEvent{Request: &si.NodeRequest{RmID: RmID, Nodes: []*si.NodeInfo{nodeInfo(o.Node, si.NodeInfo_DECOMISSION, nil)}}}
	case OpAddApp:
		req := &si.AddApplicationRequest{ApplicationID: o.App, QueueName: o.Queue, PartitionName: PartName,
			Ugi: &si.UserGroupInformation{User: o.User, Groups: o.Groups}, Tags: map[string]string{}, ExecutionTimeoutMilliSeconds: int64(time.Hour / time.Millisecond),
			GangSchedulingStyle: o.Style}
		for k, v := range o.Tags {
			req.Tags[k] = v
		}
		if len(o.PhAsk) > 0 {
			req.PlaceholderAsk = o.PhAsk.SI()
		}
		return &rmevent.RMUpdateApplicationEvent{Request: &si.ApplicationRequest{RmID: RmID, New: []*si.AddApplicationRequest{req}}}
	case OpRemoveApp:
		return &rmevent.RMUpdateApplicationEvent{Request: &si.ApplicationRequest{RmID: RmID, Remove: []*si.RemoveApplicationRequest{{ApplicationID: o.App, PartitionName: PartName}}}}
	case OpAddAsk, OpUpdAsk:
		return &rmevent.RMUpdateAllocationEvent{Request: &si.AllocationRequest{RmID: RmID, Allocations: []*si.Allocation{o.siAlloc(o.Kind == OpUpdAsk && o.Node != "")}}}
	case OpReportBound:
		return &rmevent.RMUpdateAllocationEvent{Request: &si.AllocationRequest{RmID: RmID, Allocations: []*si.Allocation{o.siAlloc(true)}}}
	case OpRelease, OpConfirm:
		return &rmevent.RMUpdateAllocationEvent{Request: &si.AllocationRequest{RmID: RmID, Releases: &si.AllocationReleasesRequest{AllocationsToRelease: []*si.AllocationRelease{
			{PartitionName: PartName, ApplicationID: o.App, AllocationKey: o.Key, TerminationType: termType(o.Term), Message: "from shim"}}}}}
	case OpForeign:
		typ := siCommon.AllocTypeDefault
		if o.Static {
			typ = siCommon.AllocTypeStatic
		}
		return &rmevent.RMUpdateAllocationEvent{Request: &si.AllocationRequest{RmID: RmID, Allocations: []*si.Allocation{{
			AllocationKey: o.Key, NodeID: o.Node, PartitionName: PartName, ResourcePerAlloc: o.Res.SI(), AllocationTags: map[string]string{siCommon.Foreign: typ}}}}}
	case OpForeignDel:
		return &rmevent.RMUpdateAllocationEvent{Request: &si.AllocationRequest{RmID: RmID, Releases: &si.AllocationReleasesRequest{AllocationsToRelease: []*si.AllocationRelease{
			{PartitionName: PartName, AllocationKey: o.Key, TerminationType: si.TerminationType_STOPPED_BY_RM}}}}}
	case OpReload:
		return &rmevent.RMConfigUpdateEvent{RmID: RmID, PolicyGroup: "queues", Config: o.Conf, ExtraConfig: LogConfig, Channel: make(chan *rmevent.Result, 1)}
	case OpRemovePart:
		return &rmevent.RMPartitionsRemoveEvent{RmID: RmID, Channel: make(chan *rmevent.Result, 1)}
	}
	return nil
}

// StepResult is what one step produced.
type StepResult struct {
	Events      []interface{}
	Panic       string
	ReloadErr   string
	Scheduled   bool
	Fired       bool
	Outstanding []string
}

// Step applies one op to the world: dispatch synchronously, settle, absorb the SI traffic in the shim model,
// snapshot, run the enabled oracles. The violations are appended to w.Vios.
func (w *World) Step(op Op) *StepResult {
	res := &StepResult{}
	if w.Dead {
		return res
	}
	w.StepNo++
	if !w.inDrain {
		w.Trace = append(w.Trace, op)
	}
	w.Lines = append(w.Lines, fmt.Sprintf("%3d %s", w.StepNo, op.String()))
	pre := w.Last
	w.Pred.mu.Lock()
	w.Pred.calls = map[string]bool{}
	w.Pred.mu.Unlock()
	w.tagStep(pre, op)
	w.Shim.BeginStep(op)
	var reloadCh chan *rmevent.Result
	var raceInner *Op
	msg := w.run(func() {
		switch op.Kind {
		case OpSchedule:
			res.Scheduled = w.CC.VerifSchedule()
		case OpScheduleRace:
			fired := false
			scheduler.VerifMidCycleFn = func(appID, key, nodeID string, _ objects.AllocationResultType) {
				if fired {
					return
				}
				fired = true
				inner := w.resolveRace(op.Race, appID, key, nodeID)
				if inner == nil {
					return
				}
				if shape := w.ExcludedShape(*inner); shape != "" {
					// the resolved request is the trigger of a listed finding: not delivered
					w.Excl(shape)
					return
				}
				raceInner = inner
				w.Lines = append(w.Lines, "      mid-cycle (result for "+appID+"/"+key+" on "+nodeID+"): "+inner.String())
				w.Shim.noteOp(*inner)
				if req := inner.request(); req != nil {
					w.CC.VerifDispatch(req)
				}
			}
			func() {
				defer func() { scheduler.VerifMidCycleFn = nil }()
				res.Scheduled = w.CC.VerifSchedule()
			}()
		case OpFirePh:
			if a := w.part().GetApplication(op.App); a != nil {
				res.Fired = a.VerifFirePlaceholderTimer()
			}
		case OpFireState:
			if a := w.findApp(op.App); a != nil {
				res.Fired = a.VerifFireStateTimer()
			}
		case OpCleanQueues:
			w.part().VerifCleanQueues()
		case OpCleanExp:
			w.part().VerifCleanupExpiredApps()
		case OpQuotaPre:
			w.CC.VerifTriggerQuotaPreemption()
		case OpInspect:
			for _, a := range w.part().VerifOutstandingRequests() {
				res.Outstanding = append(res.Outstanding, a.GetAllocationKey())
			}
		case OpSetPred:
			w.Pred.mu.Lock()
			if op.Allow {
				delete(w.Pred.deny, pk(op.Key, op.Node))
			} else {
				w.Pred.deny[pk(op.Key, op.Node)] = true
			}
			w.Pred.mu.Unlock()
		case OpDropConfirm:
			// nothing is sent: the shim never confirms
		case OpHostile:
			w.dispatchHostile(op)
		default:
			req := op.request()
			if req == nil {
				panic("harness: unknown op kind " + op.Kind)
			}
			switch r := req.(type) {
			case *rmevent.RMConfigUpdateEvent:
				reloadCh = r.Channel
			case *rmevent.RMPartitionsRemoveEvent:
				reloadCh = r.Channel
			}
			w.CC.VerifDispatch(req)
		}
	})
	if msg != "" {
		res.Panic = msg
		w.Dead = true
		w.Lines = append(w.Lines, "    !! "+firstLines(msg, 12))
		if strings.HasPrefix(msg, "hang") {
			w.vio("C13", "core hangs on %s\n%s", op, firstLines(msg, 60))
		} else {
			w.vio("C13", "core panics on %s\n%s", op, firstLines(msg, 40))
		}
		w.vio("PANIC", "%s: %s", op, firstLines(msg, 30))
		return res
	}
	if reloadCh != nil {
		select {
		case r := <-reloadCh:
			if !r.Succeeded {
				res.ReloadErr = r.Reason
				if res.ReloadErr == "" {
					res.ReloadErr = "failed"
				}
			}
		default:
			res.ReloadErr = "no answer"
		}
	}
	if !w.settle() {
		if w.stuckTerminated != "" && (w.Checks["C10"] || w.Checks["*"]) {
			// the terminated callback normally runs within microseconds: ten seconds later the application has not left
			w.vio("C10", "terminated application %s is still listed as a live application of the partition (and of its queue) 10s after %s", w.stuckTerminated, op)
			w.Dead = true
			return res
		}
		w.Inconclusive = "world did not settle after " + op.String()
		w.Dead = true
		return res
	}
	res.Events = w.rec.take()
	for _, ev := range res.Events {
		w.Lines = append(w.Lines, "      <- "+eventString(ev))
	}
	if op.Kind == OpReload && res.ReloadErr == "" {
		if c, err := configs.LoadSchedulerConfigFromByteArray([]byte(op.Conf)); err == nil {
			if Excluded(GroupUsageLostShape) && w.Conf != nil {
				// listed known finding: the tracked usage of a group that lost a limit is not compared from here on
				for _, g := range DroppedGroupLimits(LimitsOf(w.Conf), LimitsOf(c)) {
					w.taintGroup(g, w.Last)
				}
			}
			w.Conf, w.ConfY = c, op.Conf
		}
	}
	if res.ReloadErr != "" {
		w.Lines = append(w.Lines, "      reload rejected: "+res.ReloadErr)
	}
	absorbAs := op
	if raceInner != nil {
		// the events of the step are the answers to the request delivered mid-cycle and the outcome of the cycle
		absorbAs = *raceInner
		w.Tag("race-" + op.Race)
	}
	for _, v := range w.Shim.Absorb(absorbAs, res) {
		w.vio("C04", "%s", v)
	}
	post := TakeSnapshot(w.CC, PartName)
	w.Last = post
	w.propagateGroupTaint(post)
	w.runOracles(pre, op, res, post)
	return res
}

func (w *World) findApp(id string) appTimer {
	part := w.part()
	if a := part.GetApplication(id); a != nil {
		return a
	}
	for _, a := range part.GetCompletedApplications() {
		if a.ApplicationID == id {
			return a
		}
	}
	for _, a := range part.GetRejectedApplications() {
		if a.ApplicationID == id {
			return a
		}
	}
	return nil
}

type appTimer interface{ VerifFireStateTimer() bool }

func firstLines(s string, n int) string {
	lines := strings.Split(s, "\n")
	if len(lines) > n {
		lines = lines[:n]
	}
	return strings.Join(lines, "\n")
}

func eventString(ev interface{}) string {
	switch v := ev.(type) {
	case *rmevent.RMNewAllocationsEvent:
		var p []string
		for _, a := range v.Allocations {
			p = append(p, fmt.Sprintf("%s/%s@%s", a.ApplicationID, a.AllocationKey, a.NodeID))
		}
		return "NEW " + strings.Join(p, ",")
	case *rmevent.RMReleaseAllocationEvent:
		var p []string
		for _, a := range v.ReleasedAllocations {
			p = append(p, fmt.Sprintf("%s/%s:%s", a.ApplicationID, a.AllocationKey, a.TerminationType))
		}
		return "RELEASE " + strings.Join(p, ",")
	case *rmevent.RMApplicationUpdateEvent:
		var p []string
		for _, a := range v.AcceptedApplications {
			p = append(p, "accepted:"+a.ApplicationID)
		}
		for _, a := range v.RejectedApplications {
			p = append(p, "rejected:"+a.ApplicationID+"("+a.Reason+")")
		}
		for _, a := range v.UpdatedApplications {
			p = append(p, a.ApplicationID+"->"+a.State)
		}
		return "APP " + strings.Join(p, ",")
	case *rmevent.RMRejectedAllocationEvent:
		var p []string
		for _, a := range v.RejectedAllocations {
			p = append(p, fmt.Sprintf("%s/%s(%s)", a.ApplicationID, a.AllocationKey, a.Reason))
		}
		return "REJECTED-ALLOC " + strings.Join(p, ",")
	case *rmevent.RMNodeUpdateEvent:
		var p []string
		for _, a := range v.AcceptedNodes {
			p = append(p, "accepted:"+a.NodeID)
		}
		for _, a := range v.RejectedNodes {
			p = append(p, "rejected:"+a.NodeID+"("+a.Reason+")")
		}
		return "NODE " + strings.Join(p, ",")
	}
	return fmt.Sprintf("%T", ev)
}

// TraceFingerprint hashes the resolved op trace.
func (w *World) TraceFingerprint() uint64 {
	var b strings.Builder
	for _, o := range w.Trace {
		b.WriteString(o.String())
		b.WriteByte('\n')
	}
	return Fingerprint(b.String())
}

// TagList returns the sorted tags that occurred.
func (w *World) TagList() []string {
	out := make([]string, 0, len(w.Tags))
	for k := range w.Tags {
		out = append(out, k)
	}
	sort.Strings(out)
	return out
}

// tagStep labels what kind of situation the op meets (used by the non-triviality rules and label histograms).
func (w *World) tagStep(pre *Snapshot, op Op) {
	w.Tag("op-" + op.Kind)
	switch op.Kind {
	case OpDecomNode:
		if n := pre.Nodes[op.Node]; n != nil {
			if len(n.Allocs) > 0 {
				w.Tag("decom-with-allocs")
			}
			for _, a := range n.Allocs {
				if a.ReleaseKey != "" {
					w.Tag("decom-with-swap")
				}
			}
			if len(n.Reservations) > 0 {
				w.Tag("decom-with-reservation")
			}
		}
	case OpRemoveApp:
		if a := pre.Apps[op.App]; a != nil {
			if len(a.Allocs) > 0 {
				w.Tag("remove-app-with-allocs")
			}
			if len(a.Reservations) > 0 {
				w.Tag("remove-app-with-reservation")
			}
		}
	case OpRelease:
		k := w.Shim.Keys[op.Key]
		switch {
		case k == nil || k.State == KDead:
			w.Tag("release-unknown")
		case k.State == KOutstanding:
			w.Tag("release-ask")
			if a := pre.Apps[op.App]; a != nil && a.Reservations[op.Key] != "" {
				w.Tag("release-reserved-ask")
			}
			if a := pre.Apps[op.App]; a != nil {
				if ask := a.Asks[op.Key]; ask != nil && ask.ReleaseKey != "" {
					w.Tag("cancel-real-ask-mid-swap")
				}
			}
		default:
			w.Tag("release-alloc")
			if a := pre.Apps[op.App]; a != nil {
				if al := a.Allocs[op.Key]; al != nil && al.ReleaseKey != "" {
					w.Tag("release-placeholder-mid-swap")
				}
			}
		}
	case OpConfirm:
		w.Tag("confirm-" + op.Term)
		if op.Keep {
			w.Tag("confirm-kept-for-duplicate")
		}
		if k := w.Shim.Keys[op.Key]; k != nil && k.State == KDead {
			w.Tag("confirm-duplicate")
		}
	case OpReportBound:
		if k := w.Shim.Keys[op.Key]; k != nil {
			w.Tag("report-bound-existing-ask")
			if a := pre.Apps[op.App]; a != nil && a.Reservations[op.Key] != "" {
				w.Tag("report-bound-reserved-ask")
			}
		}
	case OpFirePh:
		w.Tag("fire-placeholder-timer")
	}
}

// resolveRace turns the race template of a ScheduleRace op into the request delivered mid-cycle.
func (w *World) resolveRace(race, appID, key, nodeID string) *Op {
	switch race {
	case "release-ask":
		return &Op{Kind: OpRelease, App: appID, Key: key, Term: "STOPPED_BY_RM"}
	case "remove-app":
		return &Op{Kind: OpRemoveApp, App: appID}
	case "remove-node":
		if n := w.Shim.Nodes[nodeID]; n != nil && n.State == "accepted" {
			return &Op{Kind: OpDecomNode, Node: nodeID}
		}
	case "drain-node":
		if n := w.Shim.Nodes[nodeID]; n != nil && n.State == "accepted" {
			return &Op{Kind: OpDrainNode, Node: nodeID}
		}
	case "release-placeholder":
		// the placeholder a replacement in this cycle is about (or any bound placeholder of the application)
		for _, k := range w.Shim.KeysIn(KBound) {
			sk := w.Shim.Keys[k]
			if sk.App == appID && sk.Spec.Placeholder {
				return &Op{Kind: OpRelease, App: appID, Key: k, Term: "STOPPED_BY_RM"}
			}
		}
	}
	return nil
}
