package harness

import (
	"math"
	"sort"

	"github.com/apache/yunikorn-core/pkg/common/resources"
	"github.com/apache/yunikorn-core/pkg/scheduler/objects"
	"github.com/apache/yunikorn-core/pkg/scheduler/policies"
)

// queueLess is the documented order of sibling queues (parents always sort fair): priority (if priority sorting is on)
// first or second, fair share against the queue's own guaranteed / fair maximum, then the larger pending request.
func queueLess(x, y *objects.Queue, prioFirst bool) bool {
	px, py := x.GetCurrentPriority(), y.GetCurrentPriority()
	comp := resources.CompUsageRatioSeparately(x.GetAllocatedResource(), x.GetGuaranteedResource(), x.GetFairMaxResource(),
		y.GetAllocatedResource(), y.GetGuaranteedResource(), y.GetFairMaxResource())
	pend := resources.StrictlyGreaterThan(resources.Sub(x.GetPendingResource(), y.GetPendingResource()), resources.Zero)
	if prioFirst {
		if px != py {
			return px > py
		}
		if comp != 0 {
			return comp < 0
		}
		return pend
	}
	if comp != 0 {
		return comp < 0
	}
	if px != py {
		return px > py
	}
	return pend
}

// pendingComparable: the last tie-break compares pending vectors component wise, which is only a total order when the
// vectors are comparable; incomparable pairs are not distinguished by the policy.
func appLess(x, y *objects.Application, sortType policies.SortPolicy, prioFirst bool, global *resources.Resource) bool {
	px, py := x.GetAskMaxPriority(), y.GetAskMaxPriority()
	switch sortType {
	case policies.FairSortPolicy:
		comp := resources.CompUsageRatio(x.GetAllocatedResource(), y.GetAllocatedResource(), global)
		if prioFirst {
			if px != py {
				return px > py
			}
			return comp < 0
		}
		if comp != 0 {
			return comp < 0
		}
		return px > py
	default:
		tx, ty := x.GetSubmissionTime(), y.GetSubmissionTime()
		if prioFirst {
			if px != py {
				return px > py
			}
			return tx.Before(ty)
		}
		if !tx.Equal(ty) {
			return tx.Before(ty)
		}
		return px > py
	}
}

func (w *World) checkQueueOrder(where string, out []*objects.Queue, prioFirst bool) {
	distinct := 0
	for i := 0; i < len(out); i++ {
		for j := i + 1; j < len(out); j++ {
			if queueLess(out[j], out[i], prioFirst) {
				w.vio("C19", "%s: queue %s is ordered before %s although its keys put it after (priority %d vs %d, allocated %s vs %s, guaranteed %s vs %s, pending %s vs %s; priority first=%v)",
					where, out[i].GetQueuePath(), out[j].GetQueuePath(), out[i].GetCurrentPriority(), out[j].GetCurrentPriority(),
					out[i].GetAllocatedResource(), out[j].GetAllocatedResource(), out[i].GetGuaranteedResource(), out[j].GetGuaranteedResource(),
					out[i].GetPendingResource(), out[j].GetPendingResource(), prioFirst)
				return
			}
			if queueLess(out[i], out[j], prioFirst) {
				distinct++
			}
		}
	}
	if len(out) >= 3 && distinct > 0 {
		w.Tag("c19-queues-3-candidates-distinct-keys")
	}
}

func (w *World) oracleC19(post *Snapshot) {
	part := w.part()
	if part == nil {
		return
	}
	for _, path := range SortedKeys(post.Queues) {
		qs := post.Queues[path]
		q := part.GetQueue(path)
		if q == nil {
			continue
		}
		if !qs.Leaf {
			prioFirst := q.IsPrioritySortEnabled()
			var cands []*objects.Queue
			for rep := 0; rep < 3; rep++ {
				cands = q.VerifSortQueues()
				w.checkQueueOrder("sorted children of "+path, cands, prioFirst)
			}
			if len(cands) >= 2 {
				// the raw sorter on explicit permutations of the same candidates
				perms := [][]*objects.Queue{reverseQ(cands), rotateQ(cands, 1), rotateQ(reverseQ(cands), 1)}
				for _, p := range perms {
					fm := make([]*resources.Resource, len(p))
					for i, c := range p {
						fm[i] = c.GetFairMaxResource()
					}
					objects.VerifSortQueueSlice(p, fm, policies.FairSortPolicy, prioFirst)
					w.checkQueueOrder("permutation of the children of "+path, p, prioFirst)
				}
			}
			continue
		}
		// applications of a leaf
		sortType := q.VerifSortType()
		prioFirst := q.IsPrioritySortEnabled()
		global := q.GetGuaranteedResource()
		for rep := 0; rep < 3; rep++ {
			out := q.VerifSortApplications(false)
			distinct := 0
			for i := 0; i < len(out); i++ {
				for j := i + 1; j < len(out); j++ {
					if appLess(out[j], out[i], sortType, prioFirst, global) {
						w.vio("C19", "applications of %s (%s, priority first=%v): %s is ordered before %s although its keys put it after (priority %d vs %d, submitted %s vs %s, allocated %s vs %s)",
							path, sortType, prioFirst, out[i].ApplicationID, out[j].ApplicationID, out[i].GetAskMaxPriority(), out[j].GetAskMaxPriority(),
							out[i].GetSubmissionTime().Format("15:04:05.000000"), out[j].GetSubmissionTime().Format("15:04:05.000000"), out[i].GetAllocatedResource(), out[j].GetAllocatedResource())
						rep, i = 3, len(out)
						break
					}
					if appLess(out[i], out[j], sortType, prioFirst, global) {
						distinct++
					}
				}
			}
			if len(out) >= 3 && distinct > 0 {
				w.Tag("c19-apps-3-candidates-distinct-keys")
			}
			for _, a := range out {
				if sa := post.Apps[a.ApplicationID]; sa == nil || sa.Pending.IsZero() {
					w.vio("C19", "application %s is a scheduling candidate of %s but has nothing pending", a.ApplicationID, path)
				}
			}
		}
	}
	// asks of an application: priority descending, then creation time ascending; every outstanding ask exactly once
	for _, id := range SortedKeys(post.Apps) {
		app := post.Apps[id]
		seen := map[string]bool{}
		for i, k := range app.SortedKeys {
			if seen[k] {
				w.vio("C19", "ask %s appears twice in the sorted requests of %s", k, id)
			}
			seen[k] = true
			a := app.Asks[k]
			if a == nil {
				w.vio("C19", "sorted requests of %s contain %s which is not a request of the application", id, k)
				continue
			}
			if i > 0 {
				if p := app.Asks[app.SortedKeys[i-1]]; p != nil {
					if p.Priority < a.Priority || (p.Priority == a.Priority && p.CreateUnix > a.CreateUnix) {
						w.vio("C19", "asks of %s are not in priority / creation order: %s (priority %d, created %d) before %s (priority %d, created %d)", id, p.Key, p.Priority, p.CreateUnix, a.Key, a.Priority, a.CreateUnix)
					}
				}
			}
		}
		if len(app.SortedKeys) >= 3 {
			w.Tag("c19-asks-3")
		}
		for _, k := range SortedKeys(app.Asks) {
			if a := app.Asks[k]; !a.Allocated && !seen[k] {
				w.vio("C19", "outstanding ask %s of %s is missing from the sorted requests", k, id)
			}
		}
	}
	// nodes: every registered node exactly once, in score order of the current utilisation
	pol := w.Conf.Partitions[0].NodeSortPolicy
	weights := pol.ResourceWeights
	if len(weights) == 0 {
		weights = map[string]float64{"vcore": 1, "memory": 1}
	}
	score := func(n *NodeSnap) float64 {
		if pol.Type != "fair" && pol.Type != "binpacking" {
			return 0
		}
		total, usage := 0.0, 0.0
		for k, c := range n.Capacity {
			wt := weights[k]
			if wt == 0 {
				continue
			}
			v := 1 - float64(n.Available[k])/float64(c)
			if math.IsNaN(v) {
				continue
			}
			usage += v * wt
			total += wt
		}
		r := 0.0
		if total != 0 {
			r = usage / total
		}
		if pol.Type == "binpacking" {
			return 1 - r
		}
		return r
	}
	visit := func(it objects.NodeIterator) []string {
		var ids []string
		if it != nil {
			it.ForEachNode(func(n *objects.Node) bool { ids = append(ids, n.NodeID); return true })
		}
		return ids
	}
	check := func(what string, ids []string, want map[string]bool) {
		seen := map[string]bool{}
		for i, id := range ids {
			if seen[id] {
				w.vio("C19", "%s visits node %s twice: %v", what, id, ids)
				return
			}
			seen[id] = true
			if !want[id] {
				w.vio("C19", "%s visits node %s which it should not (registered and %s): %v", what, id, what, ids)
				return
			}
			if i > 0 {
				a, b := post.Nodes[ids[i-1]], post.Nodes[id]
				if a != nil && b != nil && score(a) > score(b)+1e-9 {
					w.vio("C19", "%s visits %s (score %.6f) before %s (score %.6f): not in the order of the current utilisation (%s, weights %v)", what, a.ID, score(a), b.ID, score(b), pol.Type, weights)
					return
				}
			}
		}
		for id := range want {
			if !seen[id] {
				w.vio("C19", "%s does not visit node %s: %v", what, id, ids)
				return
			}
		}
	}
	all, unreserved := map[string]bool{}, map[string]bool{}
	for id, n := range post.Nodes {
		all[id] = true
		if len(n.Reservations) == 0 {
			unreserved[id] = true
		}
	}
	full := visit(part.GetFullNodeIterator())
	check("the full node iterator", full, all)
	check("the unreserved node iterator", visit(part.GetNodeIterator()), unreserved)
	if len(full) >= 3 {
		scores := map[float64]bool{}
		for _, id := range full {
			scores[math.Round(score(post.Nodes[id])*1e6)] = true
		}
		if len(scores) >= 2 {
			w.Tag("c19-nodes-3-distinct-scores")
		}
	}
	_ = sort.Strings
}

func reverseQ(in []*objects.Queue) []*objects.Queue {
	out := make([]*objects.Queue, len(in))
	for i, q := range in {
		out[len(in)-1-i] = q
	}
	return out
}

func rotateQ(in []*objects.Queue, n int) []*objects.Queue {
	out := make([]*objects.Queue, 0, len(in))
	out = append(out, in[n%len(in):]...)
	return append(out, in[:n%len(in)]...)
}
