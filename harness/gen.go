package harness

import (
	"fmt"
	"github.com/apache/yunikorn-core/pkg/common/configs"
	"sort"
	"strings"

	"pgregory.net/rapid"

	siCommon "github.com/apache/yunikorn-scheduler-interface/lib/go/common"
)

// TGSpec describes one task group of a gang application (kept in the AddApp op, used by the generators only).
type TGSpec struct {
	Name  string `json:"name"`
	Count int    `json:"count"`
	Res   Res    `json:"res"`
}

// Profile is a weight table over op kinds plus generator settings; it makes sure the region a property talks
// about is reached. Every profile keeps all ops enabled at low weight.
type Profile struct {
	Name     string
	Conf     ConfOpts
	Opts     WorldOpts
	Weights  map[string]int
	MinSteps int
	MaxSteps int
	// sizes
	NodeLo, NodeHi   int64    // node capacity range per type
	AskLo, AskHi     int64    // ask size range per type
	GangProb         int      // percent of applications that are gang applications
	ReqNodeProb      int      // percent of asks that require a node
	PreemptProb      int      // percent of asks that may preempt others
	OldAskProb       int      // percent of asks created one hour ago
	BadQueueProb     int      // percent of applications submitted to a queue that does not exist
	TagQuotaProb     int      // percent of applications carrying quota tags
	Epilogue         bool     // drain everything at the end and demand exact zero
	Warmup           bool     // start with two nodes and two applications
	Reloads          bool     // Reload ops use mutated configurations
	UserPool         []string // users to draw applications' owners from (default: all)
	BoundReqNodeProb int      // percent of RM reported allocations that are daemon set pods (require their node)
	FragAskProb      int      // percent of asks sized just above the largest free block of any node (they have to reserve)
	// ConfFn, when set, produces the initial configuration instead of GenConf(Conf)
	ConfFn func(t *rapid.T) *configs.SchedulerConfig
}

// BaseWeights has every op enabled.
func BaseWeights() map[string]int {
	return map[string]int{
		OpAddNode: 4, OpUpdNode: 2, OpDrainNode: 1, OpUndrainNode: 1, OpDecomNode: 1,
		OpAddApp: 5, OpRemoveApp: 1, OpAddAsk: 14, OpUpdAsk: 1, OpReportBound: 2,
		OpRelease: 5, OpConfirm: 6, OpDropConfirm: 1, OpForeign: 2, OpForeignDel: 1,
		OpSchedule: 30, OpFirePh: 1, OpFireState: 1, OpReload: 1, OpCleanQueues: 1, OpQuotaPre: 1, OpSetPred: 2, OpInspect: 1,
	}
}

// With returns a copy of the weights with overrides.
func With(base map[string]int, over map[string]int) map[string]int {
	out := map[string]int{}
	for k, v := range base {
		out[k] = v
	}
	for k, v := range over {
		out[k] = v
	}
	return out
}

func pick[T any](t *rapid.T, label string, xs []T) T {
	return xs[rapid.IntRange(0, len(xs)-1).Draw(t, label)]
}

func pct(t *rapid.T, label string, p int) bool {
	if p <= 0 {
		return false
	}
	return rapid.IntRange(0, 99).Draw(t, label) < p
}

// lineRes: all generated ask sizes are multiples of {memory:1 vcore:1} (listed known finding of C19: partially comparable
// pending vectors), so that any two pending totals are comparable.
var lineRes bool

func genRes(t *rapid.T, label string, lo, hi int64, sparse bool) Res {
	if lineRes && (strings.HasPrefix(label, "ask") || strings.HasPrefix(label, "tg-res")) {
		v := rapid.Int64Range(max(lo, 1), hi).Draw(t, label+"-line")
		return Res{"memory": v, "vcore": v}
	}
	out := Res{}
	for _, k := range ResTypes {
		if k == "gpu" {
			if rapid.IntRange(0, 9).Draw(t, label+"-hasgpu") < 2 {
				out[k] = rapid.Int64Range(1, max(1, hi/4)).Draw(t, label+"-gpu")
			}
			continue
		}
		if sparse && rapid.IntRange(0, 9).Draw(t, label+"-skip-"+k) < 3 {
			continue
		}
		out[k] = rapid.Int64Range(lo, hi).Draw(t, label+"-"+k)
	}
	if len(out) == 0 {
		out["memory"] = rapid.Int64Range(max(lo, 1), hi).Draw(t, label+"-memory")
	}
	return out
}

// enabled tells whether an op kind can be generated in the current state.
func (w *World) enabled(kind string) bool {
	s := w.Shim
	switch kind {
	case OpForeign, OpForeignDel:
		if Excluded("foreign-alloc-stale-node-score") {
			// known finding: foreign allocation changes do not re-sort the node
			w.Excl("foreign-alloc-stale-node-score")
			return false
		}
		if kind == OpForeignDel {
			return len(s.Foreign) > 0
		}
		return len(s.LiveNodes()) > 0
	case OpUpdNode, OpDrainNode, OpUndrainNode, OpDecomNode:
		return len(s.LiveNodes()) > 0
	case OpRemoveApp:
		return len(s.AcceptedApps()) > 0
	case OpAddAsk:
		return len(s.AcceptedApps()) > 0
	case OpUpdAsk:
		return len(s.KeysIn(KOutstanding))+len(s.KeysIn(KBound)) > 0
	case OpReportBound:
		return len(s.AcceptedApps()) > 0 && len(s.LiveNodes()) > 0
	case OpRelease:
		return len(s.KeysIn(KOutstanding))+len(s.KeysIn(KBound)) > 0
	case OpConfirm, OpDropConfirm:
		return len(s.Pending) > 0
	case OpFirePh:
		for _, a := range w.Last.Apps {
			if a.PhTimerArmed {
				return true
			}
		}
		return false
	case OpFireState:
		for _, a := range w.Last.Apps {
			if a.StateTimerArmed {
				return true
			}
		}
		return false
	case OpSetPred:
		return len(s.KeysIn(KOutstanding)) > 0 && len(s.LiveNodes()) > 0 && !w.Opts.NoPredicates
	case OpHostile:
		return w.Opts.Hostile
	case OpRemovePart, OpCleanExp:
		return false
	}
	return true
}

// Warmup brings the world to a state in which scheduling can happen: two nodes and two applications in
// configured leaf queues (when the profile asks for it).
func Warmup(t *rapid.T, w *World, p *Profile) {
	if !p.Warmup {
		return
	}
	for i := 0; i < 2; i++ {
		w.Step(w.genKind(t, OpAddNode, p))
	}
	leaves := w.leafChoices()
	for i := 0; i < 2 && len(leaves) > 0; i++ {
		op := w.genAddApp(t, p)
		op.Queue = pick(t, "warm-queue", leaves)
		op.Tags = nil
		w.Step(op)
	}
}

// GenOp draws the next op for the world from the profile.
func GenOp(t *rapid.T, w *World, p *Profile) Op {
	kinds := make([]string, 0, len(p.Weights))
	for k, wt := range p.Weights {
		if wt > 0 && w.enabled(k) {
			kinds = append(kinds, k)
		}
	}
	sort.Strings(kinds)
	total := 0
	for _, k := range kinds {
		total += p.Weights[k]
	}
	x := rapid.IntRange(0, total-1).Draw(t, "op")
	kind := kinds[len(kinds)-1]
	for _, k := range kinds {
		if x < p.Weights[k] {
			kind = k
			break
		}
		x -= p.Weights[k]
	}
	op := w.genKind(t, kind, p)
	if shape := w.ExcludedShape(op); shape != "" {
		// the trigger of a listed known finding slipped through the per-kind filters: keep it out, count it
		w.Excl(shape)
		return Op{Kind: OpSchedule}
	}
	return op
}

func (w *World) leafChoices() []string {
	leaves, _ := LeafPaths(w.Conf)
	return leaves
}

func (w *World) genKind(t *rapid.T, kind string, p *Profile) Op {
	s := w.Shim
	op := Op{Kind: kind}
	switch kind {
	case OpAddNode:
		op.Node = s.NextID("node")
		op.Res = genRes(t, "node", p.NodeLo, p.NodeHi, false)
		op.Drain = pct(t, "node-drain", 5)
	case OpUpdNode:
		op.Node = pick(t, "node", s.LiveNodes())
		op.Res = genRes(t, "node", max(1, p.NodeLo/2), p.NodeHi, false)
	case OpDrainNode, OpUndrainNode, OpDecomNode:
		cands := s.LiveNodes()
		if kind == OpDrainNode && Excluded("reqnode-unschedulable") {
			cands = nil
			for _, n := range s.LiveNodes() {
				if w.nodeRequiredByOutstanding(n) {
					w.Excl("reqnode-unschedulable")
				} else {
					cands = append(cands, n)
				}
			}
			if len(cands) == 0 {
				return Op{Kind: OpSchedule}
			}
		}
		op.Node = pick(t, "node", cands)
	case OpAddApp:
		op = w.genAddApp(t, p)
	case OpHostile:
		op = GenHostile(t, w)
	case OpRemoveApp:
		op.App = pick(t, "app", s.AcceptedApps())
	case OpAddAsk:
		op = w.genAddAsk(t, p)
	case OpUpdAsk:
		// not for a key whose release the core has announced: the shim is about to confirm that, it does not resize it
		var keys []string
		for _, key := range append(s.KeysIn(KOutstanding), s.KeysIn(KBound)...) {
			if s.Keys[key].Announced == "" {
				keys = append(keys, key)
			}
		}
		if len(keys) == 0 {
			return Op{Kind: OpSchedule}
		}
		k := s.Keys[pick(t, "key", keys)]
		op = k.Spec
		op.Kind = OpUpdAsk
		op.Node = ""
		op.Res = Res{}
		if lineRes {
			d := rapid.Int64Range(-2, 3).Draw(t, "delta-line")
			for rk, rv := range k.Res {
				op.Res[rk] = max(1, rv+d)
			}
		} else {
			for rk, rv := range k.Res {
				op.Res[rk] = max(1, rv+rapid.Int64Range(-2, 3).Draw(t, "delta-"+rk))
			}
		}
	case OpReportBound:
		// the shim says: this pod already runs on that node (recovery, external placement)
		outstanding := s.KeysIn(KOutstanding)
		var live []string
		for _, k := range outstanding {
			if a := s.Apps[s.Keys[k].App]; a != nil && a.State == "accepted" && s.Keys[k].Announced == "" {
				live = append(live, k)
			}
		}
		if len(live) > 0 && rapid.Bool().Draw(t, "bound-existing") {
			// half of the time an ask that currently holds a reservation, if there is one
			var reserved []string
			for _, k := range live {
				if a := w.Last.Apps[s.Keys[k].App]; a != nil && a.Reservations[k] != "" {
					reserved = append(reserved, k)
				}
			}
			if len(reserved) > 0 && rapid.Bool().Draw(t, "bound-reserved") {
				live = reserved
			}
			k := s.Keys[pick(t, "key", live)]
			op = k.Spec
			op.Kind = OpReportBound
			op.Res = k.Res.Clone()
		} else {
			op = w.genAddAsk(t, p)
			if op.Kind != OpAddAsk {
				return op
			}
			op.Kind = OpReportBound
			op.ReqNode = ""
		}
		op.Node = pick(t, "node", s.LiveNodes())
		if s.Keys[op.Key] == nil && op.TaskGroup == "" && pct(t, "bound-daemonset", p.BoundReqNodeProb) {
			op.ReqNode = op.Node // a daemon set pod that already runs on its node
		}
	case OpRelease:
		keys := append(s.KeysIn(KBound), s.KeysIn(KOutstanding)...)
		if Excluded("soft-timeout-empty-app") {
			// same finding: do not take the last real ask away from an application that is resuming
			kept := keys[:0]
			for _, k := range keys {
				if a := w.Last.Apps[s.Keys[k].App]; a != nil && a.State == "Resuming" && !s.Keys[k].Spec.Placeholder {
					w.Excl("soft-timeout-empty-app")
				} else {
					kept = append(kept, k)
				}
			}
			keys = kept
			if len(keys) == 0 {
				return Op{Kind: OpSchedule}
			}
		}
		if Excluded("cancel-real-ask-mid-swap") {
			// known finding: cancelling a real ask whose placeholder swap is in flight resurrects the ask
			kept := keys[:0]
			for _, k := range keys {
				if w.realAskMidSwap(k) {
					w.Excl("cancel-real-ask-mid-swap")
				} else {
					kept = append(kept, k)
				}
			}
			keys = kept
			if len(keys) == 0 {
				return Op{Kind: OpSchedule}
			}
		}
		if dead := s.KeysIn(KDead); pct(t, "release-dead", 8) && len(dead) > 0 {
			keys = dead // a release for something already released
		}
		k := s.Keys[pick(t, "key", keys)]
		op.App, op.Key, op.Term = k.App, k.Key, "STOPPED_BY_RM"
		if pct(t, "release-unknown", 3) {
			op.Key = s.NextID("never-submitted")
		}
	case OpConfirm:
		c := pick(t, "confirm", s.Pending)
		op.App, op.Key, op.Term = c.App, c.Key, c.Term
		op.Keep = pct(t, "confirm-dup", 15)
	case OpDropConfirm:
		c := pick(t, "confirm", s.Pending)
		op.App, op.Key, op.Term = c.App, c.Key, c.Term
	case OpForeign:
		if len(s.Foreign) > 0 && rapid.Bool().Draw(t, "foreign-update") {
			f := s.Foreign[pick(t, "fkey", s.ForeignKeys())]
			op.Key, op.Node, op.Static = f.Key, f.Node, f.Static
		} else {
			op.Key = s.NextID("foreign")
			op.Node = pick(t, "node", s.LiveNodes())
			op.Static = rapid.Bool().Draw(t, "static")
		}
		op.Res = genRes(t, "foreign", 1, max(2, p.AskHi), true)
	case OpForeignDel:
		op.Key = pick(t, "fkey", s.ForeignKeys())
	case OpFirePh:
		var ids []string
		for id, a := range w.Last.Apps {
			if a.PhTimerArmed {
				if Excluded("ph-timeout-not-running-mid-swap") && a.State != "Running" && a.State != "Completing" && swapInFlight(a) {
					// known finding: the timeout does not cancel a replacement that is in flight when the application is not running
					w.Excl("ph-timeout-not-running-mid-swap")
					continue
				}
				if Excluded("soft-timeout-empty-app") && w.softWithoutRealAsk(id) {
					// known finding: a Soft application that resumes with nothing left to run is stuck in Accepted
					w.Excl("soft-timeout-empty-app")
					continue
				}
				ids = append(ids, id)
			}
		}
		if len(ids) == 0 {
			return Op{Kind: OpSchedule}
		}
		sort.Strings(ids)
		op.App = pick(t, "app", ids)
	case OpFireState:
		var ids []string
		for id, a := range w.Last.Apps {
			if a.StateTimerArmed {
				ids = append(ids, id)
			}
		}
		sort.Strings(ids)
		op.App = pick(t, "app", ids)
	case OpScheduleRace:
		op.Race = rapid.SampledFrom([]string{"release-ask", "release-ask", "remove-app", "remove-node", "drain-node", "release-placeholder"}).Draw(t, "race")
	case OpReload:
		if p.Reloads && w.ReloadGen != nil {
			op.Conf = w.ReloadGen(t, w)
		} else {
			op.Conf = MarshalConf(GenConf(t, p.Conf))
		}
	case OpSetPred:
		op.Key = pick(t, "key", s.KeysIn(KOutstanding))
		op.Node = pick(t, "node", s.LiveNodes())
		op.Allow = pct(t, "allow", 30)
		// half of the time: refuse a real gang ask on the node of a placeholder it could replace, so that the
		// replacement has to happen on another node
		type pair struct{ key, node string }
		var pairs []pair
		for _, k := range s.KeysIn(KOutstanding) {
			sk := s.Keys[k]
			if sk.Spec.Placeholder || sk.Spec.TaskGroup == "" {
				continue
			}
			if a := w.Last.Apps[sk.App]; a != nil {
				for _, al := range a.Allocs {
					if al.Placeholder && al.TaskGroup == sk.Spec.TaskGroup && !al.Released {
						pairs = append(pairs, pair{k, al.Node})
					}
				}
			}
		}
		if len(pairs) > 0 && rapid.Bool().Draw(t, "pred-on-placeholder-node") {
			sort.Slice(pairs, func(i, j int) bool { return pairs[i].key+pairs[i].node < pairs[j].key+pairs[j].node })
			pr := pick(t, "pair", pairs)
			op.Key, op.Node, op.Allow = pr.key, pr.node, false
		}
	}
	return op
}

func (w *World) genAddApp(t *rapid.T, p *Profile) Op {
	s := w.Shim
	op := Op{Kind: OpAddApp, App: s.NextID("app")}
	leaves := w.leafChoices()
	switch {
	case pct(t, "bad-queue", p.BadQueueProb) || len(leaves) == 0:
		op.Queue = pick(t, "badq", []string{"root.nosuch", "root", "nosuch", "root.a.b.c.d", ""})
	case p.Conf.Templates && pct(t, "dyn-queue", 25):
		op.Queue = "root.dyn." + pick(t, "dynq", []string{"x1", "x2", "X1"})
	default:
		op.Queue = pick(t, "queue", leaves)
		if pct(t, "queue-upper", 5) {
			op.Queue = strings.ToUpper(op.Queue[:1]) + op.Queue[1:]
		}
	}
	users := Users
	if len(p.UserPool) > 0 {
		users = p.UserPool
	}
	op.User = pick(t, "user", users)
	op.Groups = UserGroups[op.User]
	if pct(t, "tag-quota", p.TagQuotaProb) {
		op.Tags = map[string]string{}
		if rapid.Bool().Draw(t, "tag-max") {
			r := genRes(t, "tagmax", p.AskLo, p.AskHi*3, true)
			op.Tags[siCommon.AppTagNamespaceResourceQuota] = resJSON(r)
		}
		if rapid.Bool().Draw(t, "tag-apps") {
			op.Tags[siCommon.AppTagNamespaceResourceMaxApps] = fmt.Sprintf("%d", rapid.IntRange(1, 3).Draw(t, "tag-apps-v"))
		}
	}
	if pct(t, "gang", p.GangProb) {
		n := rapid.IntRange(1, 2).Draw(t, "tgs")
		total := Res{}
		for i := 0; i < n; i++ {
			tg := TGSpec{Name: fmt.Sprintf("tg-%d", i+1), Count: rapid.IntRange(1, 3).Draw(t, "tg-count"), Res: genRes(t, "tg-res", p.AskLo, p.AskHi, true)}
			op.TGs = append(op.TGs, tg)
			for j := 0; j < tg.Count; j++ {
				total.AddIn(tg.Res)
			}
		}
		op.PhAsk = total
		op.Style = pick(t, "style", []string{"Soft", "Hard", "Hard", ""})
	}
	return op
}

func resJSON(r Res) string {
	parts := []string{}
	for _, k := range SortedKeys(r) {
		parts = append(parts, fmt.Sprintf("%q:{\"value\":%d}", k, r[k]))
	}
	return "{\"resources\":{" + strings.Join(parts, ",") + "}}"
}

func (w *World) genAddAsk(t *rapid.T, p *Profile) Op {
	s := w.Shim
	op := Op{Kind: OpAddAsk, Key: s.NextID("ask"), AllowSelf: true}
	apps := s.AcceptedApps()
	if Excluded("ask-for-completing-app") {
		// known finding: a new ask takes a Completing application back to Running without the max-applications gate
		kept := apps[:0]
		for _, a := range apps {
			if st := s.Apps[a].States; len(st) > 0 && st[len(st)-1] == "Completing" {
				w.Excl("ask-for-completing-app")
			} else {
				kept = append(kept, a)
			}
		}
		apps = kept
		if len(apps) == 0 {
			return Op{Kind: OpSchedule}
		}
	}
	op.App = pick(t, "app", apps)
	app := s.Apps[op.App]
	op.Res = genRes(t, "ask", p.AskLo, p.AskHi, true)
	if p.FragAskProb > 0 && pct(t, "ask-just-above-largest-free-block", p.FragAskProb) {
		// an ask that fits the free space of the cluster but not the free space of any single node: it has to reserve
		var largest, total, largestCap int64
		for _, id := range s.LiveNodes() {
			if n := w.Last.Nodes[id]; n != nil && n.Schedulable {
				a := n.Available["memory"]
				total += a
				largest = max(largest, a)
				largestCap = max(largestCap, n.Capacity["memory"])
			}
		}
		if largest+1 <= largestCap && largest+1 <= total {
			op.Res = Res{"memory": largest + 1, "vcore": 1}
		}
	}
	op.Prio = int32(rapid.IntRange(-1, 3).Draw(t, "prio"))
	if pct(t, "prio-extreme", 6) {
		// priority classes far apart (system critical, negative batch classes, the int32 extremes)
		op.Prio = rapid.SampledFrom([]int32{2000000000, 2000001000, -1000000000, 1000000000, 2147483647, -2147483648}).Draw(t, "prio-extreme-v")
	}
	if len(app.Spec.TGs) > 0 {
		tg := pick(t, "tg", app.Spec.TGs)
		switch rapid.IntRange(0, 9).Draw(t, "gang-kind") {
		case 0, 1, 2, 3:
			// a placeholder of the task group: always the task group's size
			op.Placeholder, op.TaskGroup, op.Res = true, tg.Name, tg.Res.Clone()
		case 4, 5, 6, 7:
			// a real ask for the task group: same size, smaller, or larger on one type
			op.TaskGroup = tg.Name
			op.Res = tg.Res.Clone()
			realSize := rapid.IntRange(0, 5).Draw(t, "real-size")
			if lineRes && realSize >= 1 && realSize <= 2 {
				realSize = 5 // same size as the placeholder: stays on the line
			}
			switch realSize {
			case 0:
				for k := range op.Res {
					op.Res[k] = max(1, op.Res[k]-1)
				}
			case 1:
				ks := SortedKeys(op.Res)
				op.Res[pick(t, "bigger-type", ks)]++
			case 2:
				op.Res["gpu"] = 1
			}
		}
	}
	// a required node is what the shim sets for daemon set pods: those are never members of a gang (task group)
	if !op.Placeholder && op.TaskGroup == "" && len(s.LiveNodes()) > 0 && pct(t, "reqnode", p.ReqNodeProb) {
		cands := s.LiveNodes()
		if Excluded("reqnode-unschedulable") {
			// known finding: required-node asks are bound to unschedulable nodes; keep the shape out by construction
			cands = nil
			for _, n := range s.LiveNodes() {
				if s.Nodes[n].Schedulable {
					cands = append(cands, n)
				} else {
					w.Excl("reqnode-unschedulable")
				}
			}
		}
		if len(cands) > 0 {
			op.ReqNode = pick(t, "reqnode-v", cands)
		}
	}
	op.AllowOther = pct(t, "preempt-other", p.PreemptProb)
	if pct(t, "no-preempt-self", 20) {
		op.AllowSelf = false
	}
	op.Originator = pct(t, "originator", 10)
	if pct(t, "old", p.OldAskProb) {
		op.AgeSec = 3600
	}
	return op
}

// Drain is the epilogue: deliver what is outstanding, release and remove everything, cycle to a fixed point.
func (w *World) Drain() {
	s := w.Shim
	w.inDrain = true
	defer func() { w.inDrain = false }()
	w.Lines = append(w.Lines, "    -- drain epilogue --")
	// applications that are Completing are left undisturbed until their timer fires: they must become Completed and
	// a Completed application never has a live allocation
	fireCompleting := func() {
		for _, id := range SortedKeys(w.Last.Apps) {
			if a := w.Last.Apps[id]; a != nil && a.State == "Completing" && a.StateTimerArmed && !w.Dead && len(w.Vios) == 0 {
				w.Step(Op{Kind: OpFireState, App: id})
			}
		}
	}
	if w.StepNo%2 == 0 {
		fireCompleting()
	}
	defer func() {
		if !w.Dead && len(w.Vios) == 0 {
			fireCompleting()
		}
	}()
	for i := 0; i < 200 && len(s.Pending) > 0 && !w.Dead && len(w.Vios) == 0; i++ {
		c := s.Pending[0]
		w.Step(Op{Kind: OpConfirm, App: c.App, Key: c.Key, Term: c.Term})
	}
	fireCompleting()
	for _, k := range s.KeysIn(KBound) {
		if w.Dead || len(w.Vios) > 0 {
			return
		}
		w.Step(Op{Kind: OpRelease, App: s.Keys[k].App, Key: k, Term: "STOPPED_BY_RM"})
	}
	for _, k := range s.KeysIn(KOutstanding) {
		if w.Dead || len(w.Vios) > 0 {
			return
		}
		w.Step(Op{Kind: OpRelease, App: s.Keys[k].App, Key: k, Term: "STOPPED_BY_RM"})
	}
	for i := 0; i < 200 && len(s.Pending) > 0 && !w.Dead && len(w.Vios) == 0; i++ {
		c := s.Pending[0]
		w.Step(Op{Kind: OpConfirm, App: c.App, Key: c.Key, Term: c.Term})
	}
	for _, a := range s.AcceptedApps() {
		if w.Dead || len(w.Vios) > 0 {
			return
		}
		w.Step(Op{Kind: OpRemoveApp, App: a})
	}
	for i := 0; i < 3 && !w.Dead && len(w.Vios) == 0; i++ {
		w.Step(Op{Kind: OpSchedule})
	}
}

func (w *World) nodeRequiredByOutstanding(node string) bool {
	for _, k := range w.Shim.Keys {
		if k.State == KOutstanding && k.Spec.ReqNode == node {
			return true
		}
	}
	return false
}

// Excl counts a generator choice that was avoided because of a listed known finding.
func (w *World) Excl(name string) {
	if w.Excls == nil {
		w.Excls = map[string]int{}
	}
	w.Excls[name]++
}

// realAskMidSwap: the key is a real ask that was allocated as the replacement of a placeholder and the shim has
// not confirmed the placeholder's release yet.
func (w *World) realAskMidSwap(key string) bool {
	k := w.Shim.Keys[key]
	if k == nil {
		return false
	}
	app := w.Last.Apps[k.App]
	if app == nil {
		return false
	}
	ask := app.Asks[key]
	if ask == nil || ask.Placeholder || !ask.Allocated || ask.ReleaseKey == "" {
		return false
	}
	_, bound := app.Allocs[key]
	return !bound
}

// softWithoutRealAsk: a gang application that is not Hard style and would take the "resume" path of the
// placeholder timeout (it has not started running): that path removes every ask of the application.
func (w *World) softWithoutRealAsk(id string) bool {
	app := w.Last.Apps[id]
	sa := w.Shim.Apps[id]
	if app == nil || sa == nil || sa.Spec.Style == "Hard" {
		return false
	}
	return app.State == "New" || app.State == "Accepted"
}

func swapInFlight(a *AppSnap) bool {
	for _, al := range a.Allocs {
		if al.ReleaseKey != "" {
			return true
		}
	}
	return false
}

// ExcludedShape names the listed known finding whose trigger the op would be in the current state, when that finding's
// exclusion is switched on ("" otherwise). The generators avoid these shapes by construction; the trace minimiser uses
// the same predicate so that a reduced history cannot slide into a listed finding.
func (w *World) ExcludedShape(op Op) string {
	s := w.Shim
	switch op.Kind {
	case OpFirePh:
		a := w.Last.Apps[op.App]
		if a == nil {
			return ""
		}
		if Excluded("ph-timeout-not-running-mid-swap") && a.State != "Running" && a.State != "Completing" && swapInFlight(a) {
			return "ph-timeout-not-running-mid-swap"
		}
		if Excluded("soft-timeout-empty-app") && w.softWithoutRealAsk(op.App) {
			return "soft-timeout-empty-app"
		}
	case OpRelease:
		if Excluded("cancel-real-ask-mid-swap") && w.realAskMidSwap(op.Key) {
			return "cancel-real-ask-mid-swap"
		}
		if k := s.Keys[op.Key]; k != nil && Excluded("soft-timeout-empty-app") {
			if a := w.Last.Apps[k.App]; a != nil && a.State == "Resuming" && !k.Spec.Placeholder {
				return "soft-timeout-empty-app"
			}
		}
	case OpAddAsk, OpReportBound:
		if op.Kind == OpReportBound && Excluded("preemption-shortfall-check") {
			if n := w.Last.Nodes[op.Node]; n != nil && n.Available.Sub(op.Res).HasNegative() {
				return "preemption-shortfall-check"
			}
		}
		if Excluded("ask-for-completing-app") {
			if sa := s.Apps[op.App]; sa != nil && len(sa.States) > 0 && sa.States[len(sa.States)-1] == "Completing" && s.Keys[op.Key] == nil {
				return "ask-for-completing-app"
			}
		}
		if Excluded("reqnode-unschedulable") && op.ReqNode != "" {
			if n := s.Nodes[op.ReqNode]; n != nil && !n.Schedulable {
				return "reqnode-unschedulable"
			}
		}
	case OpDrainNode:
		if Excluded("reqnode-unschedulable") && w.nodeRequiredByOutstanding(op.Node) {
			return "reqnode-unschedulable"
		}
	case OpUpdNode:
		if Excluded("preemption-shortfall-check") {
			if n := w.Last.Nodes[op.Node]; n != nil && op.Res.Sub(n.Allocated).Sub(n.Occupied).HasNegative() {
				return "preemption-shortfall-check"
			}
		}
	case OpUpdAsk:
		if Excluded("preemption-shortfall-check") {
			if k := s.Keys[op.Key]; k != nil && k.State == KBound {
				if n := w.Last.Nodes[k.Node]; n != nil && n.Available.Add(k.Res).Sub(op.Res).HasNegative() {
					return "preemption-shortfall-check"
				}
			}
		}
	case OpAddNode:
		// a node that registers as draining while an outstanding ask already requires it cannot happen: ids are fresh
	case OpForeign, OpForeignDel:
		if Excluded("foreign-alloc-stale-node-score") {
			return "foreign-alloc-stale-node-score"
		}
		if op.Kind == OpForeign && Excluded("preemption-shortfall-check") {
			if n := w.Last.Nodes[op.Node]; n != nil {
				avail := n.Available.Clone()
				if f := s.Foreign[op.Key]; f != nil {
					avail.AddIn(f.Res)
				}
				if avail.Sub(op.Res).HasNegative() {
					return "preemption-shortfall-check"
				}
			}
		}
	}
	return ""
}

// FillNodes adds an application to up to four leaf queues and fills every registered node with allocations the RM
// reports as already running (random sizes, priorities, originator flags, some daemon set pods), then adds a few
// starving asks. Used as the prologue of the preemption scenarios.
func FillNodes(t *rapid.T, w *World, p *Profile) {
	leaves := w.leafChoices()
	n := len(leaves)
	if n > 4 {
		n = 4
	}
	for i := 0; i < n && !w.Dead; i++ {
		op := w.genAddApp(t, p)
		op.Queue, op.Tags, op.PhAsk, op.TGs, op.Style = leaves[(i+rapid.IntRange(0, len(leaves)-1).Draw(t, "fill-leaf"))%len(leaves)], nil, nil, nil, ""
		w.Step(op)
	}
	apps := w.Shim.AcceptedApps()
	if len(apps) == 0 {
		return
	}
	// most of the time one leaf with a guaranteed share stays empty while the nodes are filled: its applications are the
	// ones that starve below their share afterwards
	fillApps := apps
	askerLeaf := ""
	if pct(t, "fill-keep-one-leaf-empty", 70) {
		var cand []string
		for _, id := range apps {
			if a := w.Last.Apps[id]; a != nil {
				if q := w.Last.Queues[a.Queue]; q != nil && q.GuarSet && q.Guaranteed["memory"] > 0 && q.Guaranteed["vcore"] > 0 {
					cand = append(cand, a.Queue)
				}
			}
		}
		sort.Strings(cand)
		if len(cand) > 0 {
			askerLeaf = pick(t, "fill-asker-leaf", cand)
			var rest []string
			for _, id := range apps {
				if a := w.Last.Apps[id]; a != nil && a.Queue != askerLeaf {
					rest = append(rest, id)
				}
			}
			if len(rest) > 0 {
				fillApps = rest
			} else {
				askerLeaf = ""
			}
		}
	}
	if askerLeaf != "" && len(w.Shim.LiveNodes()) < 3 {
		// a second preemption round needs victims on a node that the first round did not reserve
		w.Step(w.genKind(t, OpAddNode, p))
	}
	// tight fill: every other leaf ends a little above its guaranteed share (1-4 units), then the nodes are shrunk to what
	// they hold. The first preemption round takes those leaves down to about their share; whether a second round may take
	// more from them depends on the victims that are still in flight being discounted.
	tight := askerLeaf != "" && pct(t, "fill-tight", 60)
	budget := map[string]int64{} // leaf -> what may still be allocated there
	if tight {
		for _, id := range fillApps {
			if a := w.Last.Apps[id]; a != nil {
				if _, ok := budget[a.Queue]; ok {
					continue
				}
				if q := w.Last.Queues[a.Queue]; q != nil && q.GuarSet && q.Guaranteed["memory"] > 0 {
					budget[a.Queue] = q.Guaranteed["memory"] + rapid.Int64Range(1, 4).Draw(t, "fill-excess")
				} else {
					budget[a.Queue] = rapid.Int64Range(2, 8).Draw(t, "fill-noguar")
				}
			}
		}
	}
	for _, node := range w.Shim.LiveNodes() {
		for i := 0; i < 8 && !w.Dead && len(w.Vios) == 0; i++ {
			ns := w.Last.Nodes[node]
			if ns == nil || ns.Available["memory"] < 2 || ns.Available["vcore"] < 2 {
				break
			}
			sz := rapid.Int64Range(2, 4).Draw(t, "fill-size")
			if tight {
				// an application whose leaf still has budget
				var open []string
				for _, id := range fillApps {
					if a := w.Last.Apps[id]; a != nil && budget[a.Queue] > 0 {
						open = append(open, id)
					}
				}
				if len(open) == 0 {
					break
				}
				app := pick(t, "fill-app-tight", open)
				leaf := w.Last.Apps[app].Queue
				sz = min(rapid.Int64Range(1, 3).Draw(t, "fill-size-tight"), budget[leaf], ns.Available["memory"], ns.Available["vcore"])
				budget[leaf] -= sz
				w.Step(Op{Kind: OpReportBound, App: app, Key: w.Shim.NextID("ask"), Node: node, AllowSelf: true, Res: Res{"memory": sz, "vcore": sz},
					Prio: int32(rapid.IntRange(-1, 1).Draw(t, "fill-prio-tight")), AgeSec: 3600})
				continue
			}
			op := Op{Kind: OpReportBound, App: pick(t, "fill-app", fillApps), Key: w.Shim.NextID("ask"), Node: node, AllowSelf: true,
				Res: Res{"memory": min(sz, ns.Available["memory"], ns.Available["vcore"]), "vcore": min(sz, ns.Available["memory"], ns.Available["vcore"])}, Prio: int32(rapid.IntRange(-1, 3).Draw(t, "fill-prio")),
				Originator: pct(t, "fill-originator", 10), AgeSec: 3600}
			if pct(t, "fill-daemonset", 10) {
				op.ReqNode = node
			}
			w.Step(op)
		}
	}
	if tight {
		for _, node := range w.Shim.LiveNodes() {
			if ns := w.Last.Nodes[node]; ns != nil && !w.Dead && (ns.Available["memory"] > 0 || ns.Available["vcore"] > 0) {
				res := ns.Capacity.Clone()
				for _, k := range []string{"memory", "vcore"} {
					res[k] = ns.Capacity[k] - ns.Available[k]
					if res[k] < 1 {
						res[k] = 1
					}
				}
				w.Step(Op{Kind: OpUpdNode, Node: node, Res: res})
			}
		}
	}
	// the applications whose queue path holds a guaranteed share that is not used up: the ones queue preemption works for
	var under []string
	room := map[string]int64{} // what is left of the smallest guaranteed share on the path of the application
	for _, id := range apps {
		a := w.Last.Apps[id]
		if a == nil {
			continue
		}
		left := int64(-1)
		for _, qp := range PathPrefixes(a.Queue) {
			if q := w.Last.Queues[qp]; q != nil && q.GuarSet {
				for k, g := range q.Guaranteed {
					if k == "memory" || k == "vcore" {
						if r := g - q.Allocated[k] - q.Pending[k]; left < 0 || r < left {
							left = r
						}
					}
				}
			}
		}
		if left > 0 && (askerLeaf == "" || a.Queue == askerLeaf) {
			under = append(under, id)
			room[id] = left
		}
	}
	starving := rapid.IntRange(1, 4).Draw(t, "fill-starving")
	if askerLeaf != "" {
		// several small asks below the share: more than one preemption round, the later ones while victims are in flight
		starving = rapid.IntRange(2, 6).Draw(t, "fill-starving-directed")
	}
	for i := starving; i > 0 && !w.Dead && len(w.Vios) == 0; i-- {
		app := pick(t, "starving-app", apps)
		if len(under) > 0 && pct(t, "starving-under-guarantee", 85) {
			app = pick(t, "starving-app-under", under)
		}
		op := Op{Kind: OpAddAsk, App: app, Key: w.Shim.NextID("ask"), AllowSelf: true, AllowOther: true, AgeSec: 3600,
			Res: Res{"memory": rapid.Int64Range(1, 4).Draw(t, "starving-mem"), "vcore": rapid.Int64Range(1, 4).Draw(t, "starving-cpu")}, Prio: int32(rapid.IntRange(0, 3).Draw(t, "starving-prio"))}
		if pct(t, "starving-top-prio", 60) {
			op.Prio = 3
		}
		if askerLeaf != "" && pct(t, "starving-small", 70) {
			for k, v := range op.Res {
				if v > 2 {
					op.Res[k] = 2
				}
			}
		}
		if r := room[app]; r > 0 {
			// an ask that still fits in the guaranteed share: the precondition of queue preemption
			for k, v := range op.Res {
				if v > r {
					op.Res[k] = r
				}
			}
			room[app] -= op.Res["memory"]
		}
		if lineRes {
			op.Res["vcore"] = op.Res["memory"]
		}
		w.Step(op)
	}
}
